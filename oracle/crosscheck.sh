#!/bin/sh
# usage: crosscheck.sh match|soup N SEED   (development time only; needs node)
mode=$1; n=$2; seed=$3
d=$(mktemp -d /tmp/cc.XXXXXX)
/verif/harness/target/release/esdev $mode $n $seed 2>/dev/null > $d/all.jsonl
split -l 3000 $d/all.jsonl $d/chunk.
tot=0
for f in $d/chunk.*; do
  node /verif/oracle/crosscheck_v8.js < $f > $f.out 2>/dev/null || echo "node died on a chunk (V8 crash) - chunk skipped"
  grep -E "DIFF|REJECTS" $f.out
done
cat $d/chunk.*.out | grep "^cases" | awk '{c+=$2; b+=$4; s+=$6; k+=$8} END {print "TOTAL cases",c,"diffs",b,"both-syntax",s,"skipped",k}'
rm -rf $d
