// Development-time: V8's membership verdicts for candidate strings of the seven properties of strings.
// usage: node export_strings_v8.js /tmp/regress_strings.jsonl > v8_strings.tsv
const fs = require('fs');
const PROPS = ['Basic_Emoji', 'Emoji_Keycap_Sequence', 'RGI_Emoji_Flag_Sequence', 'RGI_Emoji_Modifier_Sequence', 'RGI_Emoji_Tag_Sequence', 'RGI_Emoji_ZWJ_Sequence', 'RGI_Emoji'];
const cands = new Set();
const add = (cps) => cands.add(cps.map(c => c.toString(16).toUpperCase()).join(' '));
for (const line of fs.readFileSync(process.argv[2], 'utf8').split('\n')) { if (!line.trim()) continue; const o = JSON.parse(line); for (const s of o.strings) add(s); }
// structurally generated candidates
const setOf = (re) => { const out = []; for (let c = 0; c <= 0x10FFFF; c++) { if (c >= 0xD800 && c <= 0xDFFF) continue; if (re.test(String.fromCodePoint(c))) out.push(c); } return out; };
const emoji = setOf(/^\p{Emoji}$/u), ebase = setOf(/^\p{Emoji_Modifier_Base}$/u), epres = setOf(/^\p{Emoji_Presentation}$/u), extpict = setOf(/^\p{Extended_Pictographic}$/u);
for (const c of [...'0123456789#*'].map(x => x.codePointAt(0))) { add([c, 0xFE0F, 0x20E3]); add([c, 0x20E3]); add([c]); add([c, 0xFE0F]); }
add([0x41, 0xFE0F, 0x20E3]);
for (let a = 0x1F1E6; a <= 0x1F1FF; a++) for (let b = 0x1F1E6; b <= 0x1F1FF; b++) add([a, b]);
for (const b of ebase) for (let m = 0x1F3FB; m <= 0x1F3FF; m++) add([b, m]);
for (const c of [0x1F600, 0x41]) add([c, 0x1F3FB]);
for (const c of new Set([...emoji, ...extpict])) { add([c]); add([c, 0xFE0F]); }
const tag = (s) => [0x1F3F4, ...[...s].map(ch => 0xE0000 + ch.charCodeAt(0)), 0xE007F];
for (const s of ['gbeng', 'gbsct', 'gbwls', 'usca', 'ustx', 'gbnir', 'eng']) add(tag(s));
// a few ZWJ shapes
for (const [a, b] of [[0x1F468, 0x1F469], [0x1F469, 0x1F467], [0x1F441, 0x1F5E8], [0x1F3F3, 0x1F308], [0x1F9D1, 0x1F33E], [0x1F600, 0x1F600]]) { add([a, 0x200D, b]); add([a, 0xFE0F, 0x200D, b]); add([a, 0x200D, b, 0xFE0F]); add([a, 0xFE0F, 0x200D, b, 0xFE0F]); }
add([]);
const res = PROPS.map(p => new RegExp('^\\p{' + p + '}$', 'v'));
const out = [];
for (const k of cands) {
  const cps = k === '' ? [] : k.split(' ').map(x => parseInt(x, 16));
  const s = String.fromCodePoint(...cps);
  const bits = res.map(r => r.test(s) ? '1' : '0').join('');
  out.push(k + '\t' + bits);
}
out.sort();
console.log('# candidate string (hex code points) <TAB> membership bits for ' + PROPS.join(','));
console.log(out.join('\n'));
