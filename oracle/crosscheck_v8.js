// Development-time cross-validation of the reference model against V8. Reads esdev JSON lines on stdin.
const rl = require('readline').createInterface({ input: process.stdin });
let n = 0, bad = 0, syn = 0, skipped = 0;
const show = (u) => String.fromCharCode(...u);
rl.on('line', (line) => {
  const c = JSON.parse(line);
  n++;
  const p = show(c.p);
  if (c.k === 'soup') {
    let ok = true, msg = '';
    try { new RegExp(p, c.f); } catch (e) { ok = false; msg = e.message; }
    if (ok !== c.ok) { bad++; if (bad <= 60) console.log('ACCEPT-DIFF', JSON.stringify(p), c.f, 'esref', c.ok, c.err, 'v8', ok, msg); }
    return;
  }
  // known V8 11.3 deviations from the specification (not used as evidence either way)
  const isV = c.f.includes('v'), isI = c.f.includes('i');
  if (isV && p.includes('[^')) { skipped++; return; }
  if (isV && isI && (p.includes('--') || p.includes('&&') || p.includes('[^') || /\\[PWDS]/.test(p))) { skipped++; return; }
  if (/\\[1-9][0-9]*[\uD800-\uDBFF]/.test(p) || /\\k<[^>]*>[\uD800-\uDBFF]/.test(p)) { skipped++; return; }
  let re;
  try { re = new RegExp(p, c.f + 'gd'); } catch (e) {
    if (c.exp && c.exp.syntax) { syn++; return; }
    bad++; if (bad <= 60) console.log('V8-REJECTS', JSON.stringify(p), c.f, e.message, JSON.stringify(c.exp)); return;
  }
  if (c.exp && c.exp.syntax) { bad++; if (bad <= 60) console.log('ESREF-REJECTS', JSON.stringify(p), c.f, c.exp.syntax); return; }
  if (c.exp === 'abort' || (c.exp && c.exp.decline)) { skipped++; return; }
  const h = show(c.h);
  re.lastIndex = c.s;
  const m = re.exec(h);
  let got = null;
  if (m) got = { s: m.indices[0][0], e: m.indices[0][1], caps: m.indices.slice(1).map(x => x ? [x[0], x[1]] : null) };
  const norm = (x) => x ? JSON.stringify({ s: x.s, e: x.e, caps: x.caps }) : 'null';
  const inPair = (i) => i > 0 && i < h.length && h.charCodeAt(i - 1) >= 0xD800 && h.charCodeAt(i - 1) <= 0xDBFF && h.charCodeAt(i) >= 0xDC00 && h.charCodeAt(i) <= 0xDFFF;
  if (got && (inPair(got.s) || inPair(got.e))) { skipped++; return; }
  if (norm(got) !== norm(c.exp)) { bad++; if (bad <= 60) console.log('MATCH-DIFF', JSON.stringify(c.p), JSON.stringify(c.h), JSON.stringify(p), c.f, JSON.stringify(h), c.s, 'esref', JSON.stringify(c.exp), 'v8', JSON.stringify(got)); }
});
rl.on('close', () => console.log('cases', n, 'diffs', bad, 'both-syntax-error', syn, 'skipped', skipped));
