// Development-time export of Unicode data from V8/ICU (node). Not needed at check time; its outputs are committed.
// usage: node export_v8.js   (in /verif/oracle)
const fs = require('fs');
const crypto = require('crypto');
const cands = JSON.parse(fs.readFileSync('name_candidates.json', 'utf8'));

// one string with every scalar value in code point order
let parts = [];
for (let c = 0; c <= 0x10FFFF; c += 0x1000) {
  let s = '';
  for (let d = c; d < c + 0x1000 && d <= 0x10FFFF; d++) {
    if (d >= 0xD800 && d <= 0xDFFF) continue;
    s += String.fromCodePoint(d);
  }
  parts.push(s);
}
const ALL = parts.join('');

function lastCp(s) {
  const n = s.length;
  if (n >= 2) {
    const lo = s.charCodeAt(n - 1), hi = s.charCodeAt(n - 2);
    if (lo >= 0xDC00 && lo <= 0xDFFF && hi >= 0xD800 && hi <= 0xDBFF) return s.codePointAt(n - 2);
  }
  return s.charCodeAt(n - 1);
}
function setOf(re) {
  // ranges of code points matched by re (which must match single code points), via runs
  const ranges = [];
  for (const m of ALL.matchAll(re)) {
    const a = m[0].codePointAt(0), b = lastCp(m[0]);
    if (a < 0xD800 && b > 0xDFFF) { ranges.push([a, 0xD7FF]); ranges.push([0xE000, b]); }
    else ranges.push([a, b]);
  }
  return ranges;
}
function fmt(r) { return r.map(([a, b]) => a === b ? a.toString(16).toUpperCase() : a.toString(16).toUpperCase() + '-' + b.toString(16).toUpperCase()).join(','); }

const forms = (n) => [n, 'gc=' + n, 'General_Category=' + n, 'sc=' + n, 'Script=' + n, 'scx=' + n, 'Script_Extensions=' + n];
const accepted = [], rejected = [], vonly = [];
for (const n of cands) {
  for (const e of forms(n)) {
    let okU = true, okV = true;
    try { new RegExp('\\p{' + e + '}', 'u'); } catch (_) { okU = false; }
    try { new RegExp('\\p{' + e + '}', 'v'); } catch (_) { okV = false; }
    if (okU) accepted.push(e); else if (okV) vonly.push(e); else rejected.push(e);
  }
}
console.log('accepted', accepted.length, 'v-only', vonly.length, 'rejected', rejected.length);
const sets = new Map(); // key ranges string -> id
const names = [];
let t0 = Date.now();
for (const e of accepted) {
  const r = fmt(setOf(new RegExp('\\p{' + e + '}+', 'gu')));
  if (!sets.has(r)) sets.set(r, sets.size);
  names.push([e, sets.get(r)]);
}
console.log('sets', sets.size, 'ms', Date.now() - t0);
fs.writeFileSync('v8_sets.tsv', [...sets.entries()].map(([r, id]) => id + '\t' + r).join('\n') + '\n');
fs.writeFileSync('v8_names.tsv', names.map(([e, id]) => e + '\t' + id).join('\n') + '\n');
fs.writeFileSync('v8_rejected.txt', rejected.join('\n') + '\n');
fs.writeFileSync('v8_vonly.txt', vonly.join('\n') + '\n');

// ---- simple case folding classes under /iu
const cased = setOf(/[\p{CWCM}\p{CWCF}\p{Lowercase}\p{Uppercase}\p{Lt}\p{Cased}]+/gu);
const cand = [];
for (const [a, b] of cased) for (let c = a; c <= b; c++) cand.push(c);
console.log('case candidates', cand.length);
const candStr = cand.map(c => String.fromCodePoint(c)).join('');
const classes = new Map();
const seen = new Set();
t0 = Date.now();
for (const c of cand) {
  if (seen.has(c)) continue;
  const re = new RegExp('\\u{' + c.toString(16) + '}', 'giu');
  const members = [];
  for (const m of candStr.matchAll(re)) members.push(m[0].codePointAt(0));
  if (members.length >= 2) { members.sort((x, y) => x - y); classes.set(members[0], members); for (const m of members) seen.add(m); }
}
console.log('classes', classes.size, 'ms', Date.now() - t0);
// completeness: no code point outside the candidate list folds to anything else
let bad = 0;
const candSet = new Set(cand);
t0 = Date.now();
for (let base = 0; base <= 0x10FFFF; base += 0x400) {
  if (base >= 0xD800 && base <= 0xDFFF) continue;
  // does anything in this block (as a class, ignoring case) match a code point outside the block's own closure?
  const lo = base, hi = Math.min(base + 0x3FF, 0x10FFFF);
  const re = new RegExp('[\\u{' + lo.toString(16) + '}-\\u{' + hi.toString(16) + '}]+', 'giu');
  const got = new Set();
  for (const [a, b] of setOf(re)) for (let c = a; c <= b; c++) got.add(c);
  const want = new Set();
  for (let c = lo; c <= hi; c++) { if (c >= 0xD800 && c <= 0xDFFF) continue; want.add(c); }
  for (const [, ms] of classes) { if (ms.some(m => m >= lo && m <= hi)) for (const m of ms) want.add(m); }
  for (const g of got) if (!want.has(g)) { bad++; if (bad < 10) console.log('EXTRA', lo.toString(16), g.toString(16)); }
  for (const w of want) if (!got.has(w)) { bad++; if (bad < 10) console.log('MISSING', lo.toString(16), w.toString(16)); }
}
console.log('block closure check: discrepancies', bad, 'ms', Date.now() - t0);
const lines = [...classes.values()].sort((x, y) => x[0] - y[0]).map(ms => ms.map(m => m.toString(16).toUpperCase()).join(' '));
fs.writeFileSync('scf17_classes.txt', '# simple-case-folding equivalence classes (code points interchangeable under /iu), exported from V8/ICU; one class per line\n' + lines.join('\n') + '\n');

const prov = { node: process.version, v8: process.versions.v8, icu: process.versions.icu, unicode: process.versions.unicode, block_closure_discrepancies: bad, files: {} };
for (const f of ['v8_sets.tsv', 'v8_names.tsv', 'v8_rejected.txt', 'v8_vonly.txt', 'scf17_classes.txt', 'name_candidates.json'])
  prov.files[f] = crypto.createHash('sha256').update(fs.readFileSync(f)).digest('hex');
fs.writeFileSync('PROVENANCE.json', JSON.stringify(prov, null, 1) + '\n');
