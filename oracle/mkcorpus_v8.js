// Development-time: freeze V8's verdicts for a sample of generated cases (inside the dialect V8 11.3 implements per spec)
// usage: esdev match N S | node mkcorpus_v8.js >> v8_corpus.jsonl
const rl = require('readline').createInterface({ input: process.stdin });
const show = (u) => String.fromCharCode(...u);
rl.on('line', (line) => {
  const c = JSON.parse(line);
  const p = show(c.p);
  if (/\(\?[ims-]+:/.test(p)) return;           // modifiers: not in V8 11.3
  if (c.k === 'soup') {
    let ok = true; try { new RegExp(p, c.f); } catch (e) { ok = false; }
    console.log(JSON.stringify({ k: 'soup', p: c.p, f: c.f, v8_ok: ok }));
    return;
  }
  const isV = c.f.includes('v'), isI = c.f.includes('i');
  if (isV && (p.includes('[^') || p.includes('--') || p.includes('&&') || p.includes('\\q'))) return;
  if (/\\[1-9][0-9]*[\uD800-\uDBFF]/.test(p) || /\\k<[^>]*>[\uD800-\uDBFF]/.test(p)) return;
  if (!c.f.includes('u') && !isV && /\\u[dD][89abAB]/.test(p)) return;
  if (c.exp === 'abort' || (c.exp && c.exp.decline)) return;
  let re; try { re = new RegExp(p, c.f + 'gd'); } catch (e) { console.log(JSON.stringify({ k: 'match', p: c.p, f: c.f, h: c.h, s: c.s, v8: 'syntax' })); return; }
  const h = show(c.h); re.lastIndex = c.s; const m = re.exec(h);
  let got = null;
  if (m) got = { s: m.indices[0][0], e: m.indices[0][1], caps: m.indices.slice(1).map(x => x ? [x[0], x[1]] : null) };
  const inPair = (i) => i > 0 && i < h.length && h.charCodeAt(i - 1) >= 0xD800 && h.charCodeAt(i - 1) <= 0xDBFF && h.charCodeAt(i) >= 0xDC00 && h.charCodeAt(i) <= 0xDFFF;
  if (got && (inPair(got.s) || inPair(got.e))) return;
  console.log(JSON.stringify({ k: 'match', p: c.p, f: c.f, h: c.h, s: c.s, v8: got }));
});
