#!/bin/sh
# Build the framework from files on disk only (offline). Every ./check rebuilds what it needs from /repo's current
# working tree anyway (cargo notices changed sources); this only warms the build caches and verifies the oracles.
here="$(cd "$(dirname "$0")" && pwd)"
cd "$here" || exit 2
export CARGO_NET_OFFLINE=true
export VERIF_DIR="$here"
mkdir -p work evidence
echo "[setup] harness (release)";            (cd harness && cargo build --release --quiet --bin check --bin c19threads) || exit 2
echo "[setup] send/sync probe";              (cd sendsync_probe && cargo build --release --quiet --target-dir ../harness/target) || exit 2
echo "[setup] harness (debug assertions)";   (cd harness && cargo build --profile chk --quiet --bin check) || exit 2
echo "[setup] harness (prohibit-unsafe + index-positions)"; (cd harness && cargo build --profile chk --quiet --features prohibit-unsafe,index-positions --target-dir target-safe --bin check) || exit 2
echo "[setup] harness (utf16)";              (cd harness && cargo build --release --quiet --features utf16 --target-dir target-utf16 --bin check && cargo build --profile chk --quiet --features utf16 --target-dir target-utf16 --bin check) || exit 2
echo "[setup] harness (nightly, pattern)";   (cd harness && cargo +nightly build --release --quiet --features pattern --target-dir target-pattern --bin check) || exit 2
for c in default index safe both utf16 alloc; do
  echo "[setup] cfgrun ($c)"; (cd cfgrun && cargo build --release --quiet --no-default-features --features cfg-$c --target-dir target-$c) || exit 2
done
echo "[setup] oracle self-test (reference model vs frozen V8 corpus)"
./harness/target/release/check SELFTEST || exit 2
echo "setup ok"
