#!/bin/sh
# Build the framework from files on disk only (offline).
here="$(cd "$(dirname "$0")" && pwd)"
cd "$here" || exit 2
export CARGO_NET_OFFLINE=true
mkdir -p work evidence
(cd harness && cargo build --release) || exit 2
echo "setup ok"
