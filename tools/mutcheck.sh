#!/bin/sh
# tools/mutcheck.sh <patch.diff> <ID> [more IDs...]  : apply a seeded change to /repo, run the quick checks, undo.
patch="$1"; shift
cd /repo || exit 2
if ! git diff --quiet; then echo "/repo has uncommitted changes"; exit 2; fi
if ! git apply --check "$patch" 2>/dev/null; then echo "PATCH DOES NOT APPLY: $patch"; exit 3; fi
git apply "$patch"
rc=0
for id in "$@"; do
  out=$(cd /verif && ./check "$id" --tier quick 2>&1)
  code=$?
  printf "%s\n" "$out" | grep -E "^(VIOLATION|  violation|KNOWN|harness build failed)" | head -4
  echo "== $id exit=$code"
  [ $code -eq 1 ] && rc=1
done
git -C /repo checkout -- .
exit $rc
