#!/usr/bin/env python3
"""Regenerates /verif/MANIFEST.json from the table below (keeps it valid at all times)."""
import json, os, subprocess
HERE = os.path.dirname(os.path.dirname(os.path.abspath(__file__)))

# id -> (claimed, category, technique, level text, level note, design ref)
T = {}
def reg(id, claimed, cat, tech, text, note, ref):
    T[id] = dict(claimed=claimed, cat=cat, tech=tech, text=text, note=note, ref=ref)

PBT = "property-based testing (proptest-driven generators over a choice vector, shrinking to a replay file)"
reg("C01", True, "exploration", "property-based differential testing against an independent, spec-shaped ECMAScript reference model (esref), itself re-validated against a frozen V8 corpus; two bounded-exhaustive pattern slices (small grammar, flag slice) x all short haystacks; thorough: libFuzzer campaign with the same oracle",
    "Random + themed search over valid patterns x haystacks x starts; find_from(..).next() must equal the reference model's first match including every capture. ~1.2M cases per quick run.",
    "Trusted base: harness/src/esref (ES2025 22.2 + Annex B, written from the specification) and its Unicode data (V8/ICU Unicode-17 export, std). One recorded deviation (legacy \\u{...}) is attributed by quirk switch. Fuel hook.", "3 C01")
reg("C02", True, "exploration", "property-based differential testing: backtracker vs PikeVM on generated and themed patterns/haystacks/starts, plus the two bounded-exhaustive pattern slices; thorough: libFuzzer campaign",
    "Random + themed search over patterns x haystacks x starts; any disagreement of the two executors on the same compiled program (both pipelines, UTF-8 and ASCII) is a violation. No absence claim beyond the explored cases.",
    "Trusted: the fuel hook (cuts runaway searches; cut cases are skipped and counted). The executors share the front end, so agreement is not correctness (that is C01).", "3 C02")
reg("C03", True, "translation_validation", "per-program bounded equivalence by generated search: opt vs no_opt on all short haystacks",
    "Each generated program is validated against its unoptimised twin on every haystack up to length 4 (5 thorough) over its relevant alphabet and every start offset: translation validation of the optimiser, bounded, by generated-input search.",
    "Bounded: longer haystacks / other characters are not examined. Trusted: fuel hook.", "3 C03")
reg("C04", True, "translation_validation", "per-program bounded equivalence by generated search: derived start predicate vs StartPredicate::Arbitrary (hook)",
    "Each generated program is compared with the same bytecode with the prefilter removed on every short haystack and every start offset, plus an alignment-sweeping scanner generator.",
    "Trusted: hook verif_with_arbitrary_start_predicate (clones the compiled program and replaces only start_pred); fuel hook. Bounded haystack length.", "3 C04")
reg("C05", True, "exploration", "bounded-exhaustive enumeration of nested-quantifier patterns x all short haystacks + random nested patterns; deterministic step counter (fuel hook) as oracle",
    "Complete enumeration of the nested-quantifier slice (depth 2 quick / 3 thorough) on all haystacks in {a,b}^<=4, both executors and pipelines: every search must finish within a fixed step budget, keep its backtrack store <= 4*steps, and stay within 200x of the other executor's step count. Random larger cases by mutual ratio.",
    "Trusted: fuel hook (ticks per instruction / backtrack pop). Budgets calibrated >= 20x the worst case of the repaired tree. No wall clock.", "3 C05")
reg("C06", True, "exploration", "property-based testing of range validity / panic freedom, same case stream on three builds (release under a crash supervisor, debug-assertions, prohibit-unsafe+index-positions)",
    "Random search with multi-byte haystacks and hostile starts; any panic, process death, assertion failure in the checked builds or invalid range is a violation.",
    "Silent out-of-bounds reads that neither crash nor trip an assertion are out of reach (ASan/Miri not in the quick tier).", "3 C06")
reg("C07", True, "exploration", "fuzz-style generated inputs (raw code points, token soup, mutated valid patterns, size-parametric adversarial families), every code point in every syntactic role and all token triples of a 71-token core, on a release and a debug-assertion build, with a crash supervisor and a deterministic compile-tick budget",
    "Random + structured search over compiler inputs; every compilation must return Ok/Err without panic, abort or exceeding A+B*n*log2(n+2) ticks; families run on a 2 MiB stack.",
    "Trusted: compile-tick hook (parser input primitives, term loop, optimizer fixpoints, emitter loop). A loop outside those is only seen by the wall-clock watchdog (INCONCLUSIVE).", "3 C07")
reg("C08", True, "exploration", "grammar-based fuzzing (token soup, cross-mode printing, mutation, curated early errors) and bounded-exhaustive enumeration of all token triples of a 71-token core, against the reference model's parser; both directions",
    "Random search over strings of syntax fragments under all 24 flag sets; regress must accept exactly what the ES grammar + early errors accept.",
    "Trusted: esref's parser (agrees with V8 on 200k soup strings apart from modifiers, which V8 11.3 lacks) and the ES property-name list exported from V8/ICU. One recorded deviation (legacy \\u{...}).", "3 C08")
reg("C09", True, "exploration", "property-based testing: iterator vs unfold of first-match, history invariants after every next()",
    "Random search over patterns biased to empty/adjacent/multi-byte matches; the iterator must equal the lastIndex unfold built from fresh first-match calls and satisfy the ordering/termination invariants; both executors, UTF-8 and ASCII.",
    "First-match correctness is C01's concern; this check trusts first-match as the unit. Trusted: fuel hook.", "3 C09")
reg("C10", True, "exploration", "exhaustive code-point sweeps (enumerated inputs) + property-based composition, against an independent Unicode-17 canonicalisation oracle",
    "Exhaustive over all 1,112,064 scalar values for both rules: literals, backreference pairs, class blocks, class/property escapes under i/iu/iv; plus random composition judged by the reference model.",
    "Oracle: std full upper-casing + the ES legacy rule; simple case folding classes exported from V8/ICU 78 (block-closure-verified). Hook: fold_code_point.", "3 C10")
reg("C11", True, "exploration", "exhaustive enumeration: every ES property expression x all scalar values, rejected-name lists, candidate strings for properties of strings; oracle = V8/ICU Unicode-17 export",
    "Exhaustive over the finite domain: 1714 accepted spellings (367 sets) x {\\p,\\P} x {u,v} swept over all scalar values; ~8.6k names that must be rejected; 8.8k candidate strings x 7 properties of strings.",
    "Oracle data exported once from V8 11.3/ICU 78.2 (Unicode 17.0); ZWJ sequences / aliases outside every candidate source cannot be noticed.", "3 C11")
reg("C12", True, "exploration", "property-based testing of class expressions against the reference model's set semantics + oracle-free set laws + exhaustive sweeps (fixed sets over all scalar values, every short interval at every cased code point under i, all depth-2 v-mode expressions, all bracket-token triples)",
    "Random class-expression trees (legacy/u brackets, Annex B spellings, v-mode union/&&/--/nesting/\\q) probed with members, neighbours, case partners, decoys and strings; metamorphic set laws; exhaustive sweeps of \\d \\w \\s . \\b and their complements over all scalar values.",
    "Trusted: esref class evaluator and Unicode data; properties of strings are C11's.", "3 C12")
reg("C13", True, "exploration", "property-based differential testing: ASCII vs UTF-8 entry points on generated ASCII haystacks",
    "Random search; patterns may mention non-ASCII characters and fold partners; haystacks over all 128 bytes; every start; both executors and pipelines.",
    "Trusted: fuel hook.", "3 C13")
reg("C14", True, "exploration", "property-based differential testing inside a utf16-feature build: UTF-16/UCS-2 entry points vs the UTF-8 search with offset translation; fuzzed u16 noise for safety",
    "Random search (release and debug-assertion builds with regress' utf16 feature): find_from_utf16 / find_from_ucs2 must equal find_from on the same text; arbitrary u16 slices must be handled without panic, hang or out-of-range results.",
    "The UTF-8 search of the same build is the reference. Fuel hook.", "3 C14")
reg("C15", True, "exploration", "property-based cross-configuration differential: one generated case answered by six runner processes built with different regress feature sets",
    "Random search; every observable (compile verdict, matches, captures, replace_all, named groups) must be byte-identical across default / index-positions / prohibit-unsafe / both / utf16 / alloc-only builds.",
    "Runners use the public API only; runaway cases are pre-screened with the fuel hook.", "3 C15")
reg("C20", True, "exploration", "stateful property-based testing of the Searcher / ReverseSearcher step streams (generated next/next_back interleavings) + str-method models, nightly pattern-feature build",
    "Random search; forward and reverse step streams must tile the haystack on char boundaries, Match steps must equal find_iter, Done sticky; interleaved use stays in range; str::{find,contains,matches,match_indices,split,splitn,split_terminator,strip_prefix} equal models.",
    "find_iter is the reference for the matches. Which matches the reverse searcher reports is not prescribed by the property.", "3 C20")
reg("C19", True, "exploration", "compile-time auto-trait probe + stateful property-based testing (query histories vs fresh compile, Debug snapshot) + generated thread schedules",
    "(a) a probe crate asserts Regex/Match/Error: Send+Sync at compile time; (b) generated query histories on a long-lived Regex must equal fresh-compile results and leave the compiled program's Debug dump unchanged; (c) 2-16 threads sharing &Regex/clones must reproduce the sequential results.",
    "(c) samples OS schedules only (no synchronisation exists for a schedule controller to steer); safety rests on (a)+(b). Fuel hook.", "3 C19")
reg("C16", True, "exploration", "property-based testing: accessor identities + group count/name order from the generator's AST, duplicate names across alternatives",
    "Random search over patterns with named/unnamed/duplicate-named groups (incl. inside lookbehind and loops); every accessor identity is asserted on every match.",
    "Trusted: the generator's AST for group count and names (patterns are valid by construction; a rejected one is reported). Fuel hook.", "3 C16")
reg("C17", True, "exploration", "property-based testing: splice-and-expand reference model over the library's own match sequence, template token grammar",
    "Random search over pattern x haystack x template; replace/replace_all must equal the model; closure variants obey identity / call-order / length laws.",
    "Trusted: find_iter for the match sequence (C01/C09), named_groups() for name resolution (C16). Group numbers above 65535 are outside the documented contract.", "3 C17")
reg("C18", True, "exploration", "property-based testing: round trip + substring-search oracle (canonical-equivalence scan under i), all 24 flag sets",
    "Random search over strings of syntax/special characters and texts with planted copies; escape(s) must compile under all 24 flag sets and match exactly the occurrences of s.",
    "Trusted: str::match_indices; for i the harness's own canonicalisation (std upper-casing + ES legacy rule; regex-syntax simple folding, Unicode 16 plus std for newer characters).", "3 C18")

def main():
    hooks_commits = []
    try:
        out = subprocess.run(["git", "-C", "/repo", "log", "--format=%H %s"], capture_output=True, text=True).stdout
        hooks_commits = [l.split()[0] for l in out.splitlines() if " verif-hooks:" in l]
    except Exception:
        pass
    checks, na = [], []
    for id in sorted(T):
        t = T[id]
        if not t["claimed"]:
            na.append({"property_id": id, "reason": t.get("reason") or "check not built yet in this session (work in progress; see DESIGN.md section " + t["ref"] + ")"})
            continue
        checks.append({
            "property_id": id,
            "quick_cmd": "./check %s --tier quick" % id,
            "thorough_cmd": "./check %s --tier thorough" % id,
            "evidence_file": "/verif/evidence/%s.json" % id,
            "replay_cmd_template": "./check %s --replay {path}" % id,
            "engine": "rvh",
            "level_claimed": {"category": t["cat"], "text": t["text"], "design_ref": "DESIGN.md section " + t["ref"]},
            "level_note": t["note"],
            "technique": t["tech"],
        })
    m = {
        "version": 1,
        "setup_cmd": "./setup.sh",
        "hooks": {
            "guard": "cargo feature verif-hooks",
            "enable": "the harness depends on regress = { path = \"/repo\", features = [\"verif-hooks\"] }",
            "baseline_off_cmd": "cd /repo && cargo test --workspace --no-fail-fast --offline",
            "source_commits": hooks_commits,
            "add_only": True,
        },
        "engines": [
            {"name": "rvh", "path": "/verif/harness", "serves_properties": [c["property_id"] for c in checks],
             "kind_free_text": "Rust harness: hand-written generators over a proptest-generated choice vector (shrinks structurally), proptest TestRunner per shard (16 shards, seeds derived from VERIF_SEED), enumerated slices/sweeps, explicit oracles per property (ES reference model esref, differentials, models), crash supervisor with case journal, replay files; built in five variants (release, debug-assertions, prohibit-unsafe+index-positions, utf16, nightly pattern)"},
            {"name": "cfgrun", "path": "/verif/cfgrun", "serves_properties": ["C15"],
             "kind_free_text": "tiny runner (public API only) built once per regress feature set; six persistent processes per shard answer each generated case over a line protocol"},
            {"name": "fuzzproj", "path": "/verif/fuzzproj", "serves_properties": ["C01", "C02", "C03", "C06", "C07", "C08", "C09", "C10", "C12"],
             "kind_free_text": "cargo-fuzz / libFuzzer targets (nightly, ASan, debug assertions) that decode bytes into the harness's choice vector and run the same semantic oracle in-target; thorough tiers only"},
            {"name": "sendsync_probe", "path": "/verif/sendsync_probe", "serves_properties": ["C19"],
             "kind_free_text": "crate containing only Send + Sync assertions for Regex / Match / Error; failing to compile is the violation"},
            {"name": "oracle", "path": "/verif/oracle", "serves_properties": ["C01", "C05", "C08", "C10", "C11", "C12", "C18"],
             "kind_free_text": "committed Unicode-17 data exported from V8/ICU 78 (property sets, accepted names, simple case folding classes, string-property memberships) and a frozen corpus of V8 verdicts that re-validates the reference model on every run"},
        ],
        "checks": checks,
        "not_applicable": na,
        "notes": "All checks: ./check <ID> --tier quick|thorough [--seed N] ; VERIF_SEED is honoured. Exit 2 = machinery unusable (build failure).",
    }
    json.dump(m, open(os.path.join(HERE, "MANIFEST.json"), "w"), indent=1)
    print("MANIFEST.json written:", len(checks), "claimed,", len(na), "not claimed")

main()
