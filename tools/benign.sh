#!/bin/sh
# tools/benign.sh <dir-with-*.diff> : behaviour-preserving changes (written by sub-agents) must leave every check silent.
# For each diff: apply to /repo, run all 20 quick checks, undo. Prints one line per (diff, check) that is not exit 0.
dir="$1"
cd /repo || exit 2
git diff --quiet || { echo "/repo dirty"; exit 2; }
for f in "$dir"/*.diff; do
  name=$(basename "$f" .diff)
  git apply "$f" || { echo "$name: does not apply"; continue; }
  bad=0
  for i in 01 02 03 04 05 06 07 08 09 10 11 12 13 14 15 16 17 18 19 20; do
    out=$(cd /verif && ./check C$i --tier quick 2>&1); code=$?
    if [ $code -ne 0 ]; then
      bad=1
      echo "$name C$i exit=$code"
      printf '%s\n' "$out" | grep -aE "^  violation|INCONCLUSIVE|harness build failed" | head -3 | cut -c1-400
    fi
  done
  [ $bad -eq 0 ] && echo "$name: all 20 checks silent"
  git -C /repo checkout -- .
done
