#!/bin/sh
# tools/confirm_mutant.sh <PROP> <Mk> : independently confirm a seeded change in its scratch worktree /tmp/mut/<PROP>
# (suite green with the change; demo fails with it; demo passes without), then store it under /verif/seeded/<PROP>-<Mk>/
P="$1"; M="$2"; W=/tmp/mut/$P; O=$W/OUT
cd "$W" || exit 2
git checkout -q -- . ; rm -f tests/zz_demo_*.rs
git apply "$O/$M.diff" || { echo "$P $M: patch does not apply"; exit 3; }
suite=$(cargo test --workspace --no-fail-fast --offline 2>&1 | grep -E "^test result" | awk '{p+=$4; f+=$6} END {print p" passed "f" failed"}')
cp "$O/${M}_demo.rs" tests/zz_demo_$M.rs
cargo test --offline --test zz_demo_$M >/tmp/mut/$P-$M-with.log 2>&1; with=$?
git checkout -q -- . 
cargo test --offline --test zz_demo_$M >/tmp/mut/$P-$M-without.log 2>&1; without=$?
rm -f tests/zz_demo_$M.rs
echo "$P $M: suite_with_change=[$suite] demo_with_change_exit=$with demo_clean_exit=$without"
D=/verif/seeded/$P-$M
mkdir -p $D
cp "$O/$M.diff" $D/patch.diff; cp "$O/${M}_demo.rs" $D/demo.rs; cp "$O/$M.md" $D/notes.md
python3 - "$P" "$M" "$suite" "$with" "$without" <<'PY'
import json,sys
P,M,suite,w,wo=sys.argv[1:6]
d=f"/verif/seeded/{P}-{M}"
notes=open(d+"/notes.md").read()
json.dump({"property":P,"id":f"{P}-{M}","origin":"independent sub-agent given only the property text and a scratch worktree",
 "needs_to_manifest":notes.strip().split("\n")[0:12],
 "confirmed":{"suite_with_change":suite,"demo_exit_with_change":int(w),"demo_exit_clean":int(wo),
 "commands":["git apply patch.diff","cargo test --workspace --no-fail-fast --offline","cargo test --offline --test zz_demo (with / without the change)"]}},
 open(d+"/meta.json","w"),indent=1)
PY
