#!/bin/sh
# tools/confirm_mutant.sh <PROP> <Mk> : independently confirm a seeded change in a scratch worktree of /repo's current HEAD
# (/tmp/mut/confirm): the pinned suite stays green with the change; the demonstration fails with it and passes without.
# Then store it under /verif/seeded/<PROP>-<Mk>/.
P="$1"; M="$2"; O=${OUTDIR:-/tmp/mut/$P/OUT}; W=/tmp/mut/confirm
[ -d "$W" ] || git -C /repo worktree add -q --detach "$W" HEAD
cd "$W" || exit 2
git checkout -q --detach $(git -C /repo rev-parse HEAD) 2>/dev/null
git checkout -q -- . ; rm -f tests/zz_demo_*.rs
F="$O/$M.diff"; [ -f "$O/$M.rebased.diff" ] && F="$O/$M.rebased.diff"
git apply "$F" || { echo "$P $M: patch does not apply"; exit 3; }
FEAT=""; TC=""
case "$P-$M" in
  C14-*) FEAT="--features utf16";;
  C15-M1) FEAT="--features index-positions";;
  C15-M2) FEAT="--features utf16";;
  C15-M3) FEAT="--features index-positions";;
  C15-M4) FEAT="--features prohibit-unsafe";;
  C15-M5) FEAT="--features utf16";;
  C15-M6) FEAT="--features utf16";;
  C15-M7) FEAT="--features prohibit-unsafe";;
  C20-*) FEAT="--features pattern"; TC="+nightly";;
esac
suite=$(cargo test --workspace --no-fail-fast --offline 2>&1 | grep -E "^test result" | awk '{p+=$4; f+=$6} END {print p" passed "f" failed"}')
cp "$O/${M}_demo.rs" tests/zz_demo_$M.rs
cargo $TC test --offline $FEAT --test zz_demo_$M >/tmp/mut/$P-$M-with.log 2>&1; with=$?
git checkout -q -- src Cargo.toml 2>/dev/null; git checkout -q -- .
cp "$O/${M}_demo.rs" tests/zz_demo_$M.rs
cargo $TC test --offline $FEAT --test zz_demo_$M >/tmp/mut/$P-$M-without.log 2>&1; without=$?
rm -f tests/zz_demo_$M.rs
echo "$P $M: suite_with_change=[$suite] demo_with_change_exit=$with demo_clean_exit=$without"
D=/verif/seeded/$P-$M
mkdir -p $D
cp "$F" $D/patch.diff; cp "$O/${M}_demo.rs" $D/demo.rs; cp "$O/$M.md" $D/notes.md
python3 - "$P" "$M" "$suite" "$with" "$without" "$FEAT" "$TC" <<'PY'
import json,sys
P,M,suite,w,wo,feat,tc=sys.argv[1:8]
d=f"/verif/seeded/{P}-{M}"
notes=open(d+"/notes.md").read()
json.dump({"property":P,"id":f"{P}-{M}","origin":"independent sub-agent given only the property text and a scratch worktree",
 "needs_to_manifest":[l for l in notes.strip().split("\n") if l.strip()][:14],
 "confirmed":{"base":"scratch worktree of /repo HEAD (hooks + fix commits)","suite_with_change":suite,"demo_exit_with_change":int(w),"demo_exit_clean":int(wo),
 "commands":["git apply patch.diff","cargo test --workspace --no-fail-fast --offline",f"cargo {tc} test --offline {feat} --test zz_demo_{M}  (with / without the change)".replace("  "," ")]}},
 open(d+"/meta.json","w"),indent=1)
PY
