#!/bin/sh
# tools/matrix.sh : run, for every seeded change under /verif/seeded, the quick check of the property it breaks
# (apply -> check -> undo) and record the outcome in meta.json ("detected_by_own_check").
cd /verif
for d in seeded/*/; do
  id=$(basename $d); prop=${id%%-*}
  cd /repo; git diff --quiet || { echo "/repo dirty"; exit 2; }
  git apply /verif/$d/patch.diff || { echo "$id: patch does not apply"; cd /verif; continue; }
  cd /verif
  out=$(./check $prop --tier quick 2>&1); code=$?
  git -C /repo checkout -- .
  first=$(printf "%s\n" "$out" | grep -m1 "^  violation" | cut -c1-260)
  printf "%s\n" "$id exit=$code $first"
  python3 - "$d/meta.json" "$prop" "$code" "$first" <<'PY'
import json,sys
p,prop,code,first=sys.argv[1:5]
m=json.load(open(p))
m["detected_by_own_check"]={"check":f"./check {prop} --tier quick","exit":int(code),"first_violation":first.strip()}
json.dump(m,open(p,"w"),indent=1)
PY
done
