#!/bin/sh
# tools/r4.sh <worktree-name> <Fxx_Xk> : round-4 change (written per source area): confirm it, then run the quick check of
# the property its note names (first line "PROPERTY: Cxx") against it.
wt="$1"; m="$2"; O=/tmp/mut/$wt/OUT
prop=$(head -1 "$O/$m.md" | sed -n 's/^PROPERTY: *\(C[0-9][0-9]\).*/\1/p')
[ -n "$prop" ] || { echo "$m: no PROPERTY line"; exit 2; }
OUTDIR=$O sh /verif/tools/confirm_mutant.sh "$prop" "$m" | tail -1
sh /verif/tools/mutcheck.sh "$O/$m.diff" "$prop" 2>&1 | grep -a "violation\|==" | head -2 | cut -c1-260
