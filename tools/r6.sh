#!/bin/sh
# tools/r6.sh <worktree-name> <Sk> : round-6 change: confirm it (scratch worktree), store it as seeded/<PROP>-R6_<Sk>,
# run the property's quick check against it and record the outcome in meta.json.
wt="$1"; m="$2"; O=/tmp/mut/$wt/OUT
prop=$(head -1 "$O/$m.md" | sed -n 's/^PROPERTY: *\(C[0-9][0-9]\).*/\1/p')
[ -n "$prop" ] || { echo "$m: no PROPERTY line"; exit 2; }
n="R6_$m"
cp "$O/$m.diff" "$O/$n.diff"; cp "$O/${m}_demo.rs" "$O/${n}_demo.rs"; cp "$O/$m.md" "$O/$n.md"
OUTDIR=$O sh /verif/tools/confirm_mutant.sh "$prop" "$n" | tail -1
d=/verif/seeded/$prop-$n
cd /repo; git diff --quiet || { echo "/repo dirty"; exit 2; }
git apply $d/patch.diff || { echo "$prop-$n: patch does not apply"; exit 3; }
cd /verif
out=$(./check $prop --tier quick 2>&1); code=$?
git -C /repo checkout -- .
first=$(printf "%s\n" "$out" | grep -m1 "^  violation" | cut -c1-260)
printf "%s\n" "$prop-$n exit=$code $first"
python3 - "$d/meta.json" "$prop" "$code" "$first" <<'PY'
import json,sys
p,prop,code,first=sys.argv[1:5]
m=json.load(open(p))
m["detected_by_own_check"]={"check":f"./check {prop} --tier quick","exit":int(code),"first_violation":first.strip()}
json.dump(m,open(p,"w"),indent=1)
PY
