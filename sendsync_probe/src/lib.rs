//! C19 (a): compile-time probe. This crate contains nothing but auto-trait assertions; if it stops
//! compiling while the rest of the harness builds, Regex / Match / Error are no longer Send + Sync.
fn assert_send_sync<T: Send + Sync>() {}
fn assert_clone<T: Clone>() {}

pub fn probe() {
    assert_send_sync::<regress::Regex>();
    assert_send_sync::<regress::Match>();
    assert_send_sync::<regress::Error>();
    assert_send_sync::<&'static regress::Regex>();
    assert_send_sync::<std::sync::Arc<regress::Regex>>();
    assert_clone::<regress::Regex>();
}
