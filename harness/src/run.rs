//! Uniform adapters over regress entry points -> normalized results.

use crate::pat::Fl;
use regress::backends as rbe;
use regress::Regex;
use std::panic::{catch_unwind, AssertUnwindSafe};

pub type Cap = Option<(usize, usize)>;

#[derive(Clone, Debug, PartialEq, Eq, Hash)]
pub struct M {
    pub s: usize,
    pub e: usize,
    pub caps: Vec<Cap>,
}

impl M {
    pub fn from(m: &regress::Match) -> M {
        M { s: m.range.start, e: m.range.end, caps: m.captures.iter().map(|c| c.clone().map(|r| (r.start, r.end))).collect() }
    }
    pub fn show(&self) -> String {
        let caps: Vec<String> = self
            .caps
            .iter()
            .map(|c| match c {
                Some((a, b)) => format!("{}..{}", a, b),
                None => "-".to_string(),
            })
            .collect();
        format!("{}..{}[{}]", self.s, self.e, caps.join(","))
    }
}

pub fn show_ms(ms: &[M]) -> String {
    ms.iter().map(|m| m.show()).collect::<Vec<_>>().join(" ")
}

#[derive(Clone, Copy, Debug, PartialEq, Eq, Hash)]
pub enum Engine {
    Bt,
    Pike,
}

#[derive(Clone, Copy, Debug, PartialEq, Eq, Hash)]
pub enum Enc {
    Utf8,
    Ascii,
}

#[derive(Clone, Debug, PartialEq, Eq)]
pub enum Out {
    /// all matches (up to the limit)
    Ms(Vec<M>),
    /// fuel ran out: no verdict
    Cut,
    /// the iterator produced more items than `limit`
    Overrun(Vec<M>),
    Panic(String),
}

impl Out {
    pub fn show(&self) -> String {
        match self {
            Out::Ms(v) => format!("[{}]", show_ms(v)),
            Out::Cut => "CUT".into(),
            Out::Overrun(v) => format!("OVERRUN[{}...]", show_ms(&v[..v.len().min(4)])),
            Out::Panic(s) => format!("PANIC({})", s),
        }
    }
    pub fn is_cut(&self) -> bool {
        matches!(self, Out::Cut)
    }
}

pub fn install_quiet_panic_hook() {
    std::panic::set_hook(Box::new(|_| {}));
}

pub fn install_quiet_panic_hook_once() {
    static ONCE: std::sync::Once = std::sync::Once::new();
    ONCE.call_once(install_quiet_panic_hook);
}

pub fn panic_msg(e: Box<dyn std::any::Any + Send>) -> String {
    if let Some(s) = e.downcast_ref::<&str>() {
        s.to_string()
    } else if let Some(s) = e.downcast_ref::<String>() {
        s.clone()
    } else {
        "?".to_string()
    }
}

/// Build a Regex the way users do: the flags by one of the public routes (see `Fl::regress_salted`), the pattern
/// through from_unicode, or - when it is a string - with_flags / new. The route is a deterministic function of the pattern.
pub fn construct(cps: &[u32], fl: Fl, no_opt: bool) -> Result<Regex, regress::Error> {
    let salt = (crate::src::fnv(&cps.iter().flat_map(|c| c.to_le_bytes()).collect::<Vec<u8>>()) >> 7) as usize;
    let flags = fl.regress_salted(no_opt, salt);
    let text: Option<String> = if (salt >> 3) % 3 == 0 { cps.iter().map(|c| char::from_u32(*c)).collect() } else { None };
    let plain = !(flags.icase || flags.multiline || flags.dot_all || flags.no_opt || flags.unicode || flags.unicode_sets);
    match &text {
        Some(t) if plain && (salt >> 5) % 4 == 0 => Regex::new(t),
        Some(t) if plain && (salt >> 5) % 4 == 1 => t.parse::<Regex>(),
        Some(t) => Regex::with_flags(t, flags),
        None if (salt >> 5) % 4 == 3 => {
            // the documented manual pipeline of regress::backends
            let mut ire = rbe::try_parse(cps.iter().copied(), flags)?;
            if !flags.no_opt {
                rbe::optimize(&mut ire);
            }
            Ok(Regex::from(rbe::emit(&ire)))
        }
        None => Regex::from_unicode(cps.iter().copied(), flags),
    }
}

pub const COMPILE_FUEL: u64 = 2_000_000;

/// Compile through the public API. Err(text) for a rejected pattern, panics are reported as Err("PANIC: ..").
pub fn compile(cps: &[u32], fl: Fl, no_opt: bool) -> Result<Regex, String> {
    regress::verif::set_fuel(COMPILE_FUEL);
    // the flag string carries documented-as-ignored letters for a deterministic subset of the patterns
    let r = catch_unwind(AssertUnwindSafe(|| construct(cps, fl, no_opt)));
    let rep = regress::verif::report();
    regress::verif::set_fuel(u64::MAX);
    if rep.exhausted {
        return Err("FUEL: compile budget exhausted".into());
    }
    match r {
        Ok(Ok(re)) => Ok(re),
        Ok(Err(e)) => Err(e.text),
        Err(p) => Err(format!("PANIC: {}", panic_msg(p))),
    }
}

pub fn is_infra_err(e: &str) -> bool {
    e.starts_with("PANIC: ") || e.starts_with("FUEL: ") || e.starts_with("verif: ")
}

pub const DEFAULT_FUEL: u64 = 3_000_000;

/// Collect the match sequence of one entry point, with a fuel budget for the whole iteration.
pub fn find_all(re: &Regex, eng: Engine, enc: Enc, hay: &str, start: usize, limit: usize, fuel: u64) -> Out {
    regress::verif::set_fuel(fuel);
    let r = catch_unwind(AssertUnwindSafe(|| {
        let mut v = Vec::new();
        macro_rules! drive {
            ($it:expr) => {{
                let mut it = $it;
                while let Some(m) = it.next() {
                    v.push(M::from(&m));
                    if v.len() > limit {
                        break;
                    }
                }
            }};
        }
        match (eng, enc) {
            // the default executor is reached through the public entry points
            (Engine::Bt, Enc::Utf8) => drive!(re.find_from(hay, start)),
            (Engine::Bt, Enc::Ascii) => drive!(re.find_from_ascii(hay, start)),
            (Engine::Pike, Enc::Utf8) => drive!(rbe::find::<rbe::PikeVMExecutor>(re, hay, start)),
            (Engine::Pike, Enc::Ascii) => drive!(rbe::find_ascii::<rbe::PikeVMExecutor>(re, hay, start)),
        }
        v
    }));
    let rep = regress::verif::report();
    regress::verif::set_fuel(u64::MAX);
    match r {
        Err(p) => Out::Panic(panic_msg(p)),
        Ok(_) if rep.exhausted => Out::Cut,
        Ok(v) if v.len() > limit => Out::Overrun(v),
        Ok(v) => Out::Ms(v),
    }
}

/// First match only, through the public `find_from` (backtracking, UTF-8).
pub fn find_first(re: &Regex, hay: &str, start: usize, fuel: u64) -> (Out, regress::verif::Report) {
    regress::verif::set_fuel(fuel);
    let r = catch_unwind(AssertUnwindSafe(|| re.find_from(hay, start).next().map(|m| M::from(&m))));
    let rep = regress::verif::report();
    regress::verif::set_fuel(u64::MAX);
    let out = match r {
        Err(p) => Out::Panic(panic_msg(p)),
        Ok(_) if rep.exhausted => Out::Cut,
        Ok(Some(m)) => Out::Ms(vec![m]),
        Ok(None) => Out::Ms(vec![]),
    };
    (out, rep)
}

pub fn first_with(re: &Regex, eng: Engine, enc: Enc, hay: &str, start: usize, fuel: u64) -> (Out, regress::verif::Report) {
    regress::verif::set_fuel(fuel);
    let r = catch_unwind(AssertUnwindSafe(|| match (eng, enc) {
        (Engine::Bt, Enc::Utf8) => re.find_from(hay, start).next(),
        (Engine::Bt, Enc::Ascii) => re.find_from_ascii(hay, start).next(),
        (Engine::Pike, Enc::Utf8) => rbe::find::<rbe::PikeVMExecutor>(re, hay, start).next(),
        (Engine::Pike, Enc::Ascii) => rbe::find_ascii::<rbe::PikeVMExecutor>(re, hay, start).next(),
    }));
    let rep = regress::verif::report();
    regress::verif::set_fuel(u64::MAX);
    let out = match r {
        Err(p) => Out::Panic(panic_msg(p)),
        Ok(_) if rep.exhausted => Out::Cut,
        Ok(Some(m)) => Out::Ms(vec![M::from(&m)]),
        Ok(None) => Out::Ms(vec![]),
    };
    (out, rep)
}

/// Upper bound on the number of matches any correct iterator can produce from `start`.
pub fn match_limit(hay: &str, start: usize) -> usize {
    if start > hay.len() {
        return 1;
    }
    hay[start..].chars().count() + 2
}
