//! ECMA-262 (ES2025) section 22.2.1 Pattern grammar + Annex B.1.2 + static early errors, over code points.
//! Written from the specification text; nothing is taken from regress.

use super::cpset::CpSet;
use super::udata;

#[derive(Clone, Copy, Debug, PartialEq, Eq)]
pub struct PFlags {
    pub u: bool, // UnicodeMode (u or v)
    pub v: bool, // UnicodeSetsMode
}

/// A class operand/expression before case handling (the flags in force are known only at compile time).
#[derive(Clone, Debug, PartialEq)]
pub enum ClassNode {
    Char(u32),
    Range(u32, u32),
    Esc(u8),                            // d D s S w W
    Prop { neg: bool, expr: String },   // code point property
    StrProp(String),                    // property of strings (v only)
    Strings(Vec<Vec<u32>>),             // \q{...}
    Union(Vec<ClassNode>),
    Inter(Vec<ClassNode>),
    Sub(Vec<ClassNode>),
    Neg(Box<ClassNode>),                // [^...]
}

#[derive(Clone, Debug, PartialEq)]
pub enum Ast {
    Empty,
    Char(u32),
    Dot,
    Class(ClassNode),
    Seq(Vec<Ast>),
    Alt(Vec<Ast>),
    Group { idx: usize, name: Option<String>, body: Box<Ast> },
    Mods { add: u8, remove: u8, body: Box<Ast> }, // bit 1 = i, 2 = m, 4 = s
    Look { behind: bool, neg: bool, body: Box<Ast> },
    Repeat { body: Box<Ast>, min: u64, max: Option<u64>, greedy: bool, paren_index: usize, paren_count: usize },
    BackRef(usize),
    NamedRef(String),
    Bol,
    Eol,
    WordB,
    NotWordB,
}

pub struct Parsed {
    pub ast: Ast,
    pub ngroups: usize,
    /// name of group i at index i-1
    pub names: Vec<Option<String>>,
}

/// Quirk switches: each makes the reference reproduce one *recorded* deviation of regress (known_findings.json).
/// All false = the specification.
#[derive(Clone, Copy, Debug, Default, PartialEq, Eq)]
pub struct Quirks {
    pub legacy_u_brace_is_codepoint_escape: bool,
    pub dup_names_only_checked_by_depth: bool,
}

struct P<'a> {
    p: &'a [u32],
    i: usize,
    fl: PFlags,
    n: bool, // NamedCaptureGroups
    ngroups: usize,
    total_groups: Option<usize>, // None in the counting pass
    names: Vec<Option<String>>,
    // for duplicate-name detection: path of (alternation id, arm) per group
    alt_path: Vec<(usize, usize)>,
    group_paths: Vec<Vec<(usize, usize)>>,
    next_alt_id: usize,
    named_refs: Vec<String>,
    depth: usize,
    q: Quirks,
}

type R<T> = Result<T, String>;

fn err<T>(s: &str) -> R<T> {
    Err(s.to_string())
}

fn is_syntax(c: u32) -> bool {
    matches!(char::from_u32(c), Some('^' | '$' | '\\' | '.' | '*' | '+' | '?' | '(' | ')' | '[' | ']' | '{' | '}' | '|'))
}

fn hexval(c: u32) -> Option<u32> {
    char::from_u32(c).and_then(|ch| ch.to_digit(16))
}

fn is_digit(c: u32) -> bool {
    (0x30..=0x39).contains(&c)
}

const MAX_DEPTH: usize = 2000;

impl<'a> P<'a> {
    fn peek(&self) -> Option<u32> {
        self.p.get(self.i).copied()
    }
    fn peek_at(&self, k: usize) -> Option<u32> {
        self.p.get(self.i + k).copied()
    }
    fn eat(&mut self, c: char) -> bool {
        if self.peek() == Some(c as u32) {
            self.i += 1;
            true
        } else {
            false
        }
    }
    fn looking_at(&self, s: &str) -> bool {
        s.chars().enumerate().all(|(k, c)| self.peek_at(k) == Some(c as u32))
    }
    fn eat_str(&mut self, s: &str) -> bool {
        if self.looking_at(s) {
            self.i += s.chars().count();
            true
        } else {
            false
        }
    }

    // Disjunction :: Alternative ('|' Alternative)*
    fn disjunction(&mut self) -> R<Ast> {
        self.depth += 1;
        if self.depth > MAX_DEPTH {
            return err("too deeply nested (reference model limit)");
        }
        let alt_id = self.next_alt_id;
        self.next_alt_id += 1;
        let mut arms = vec![];
        let mut arm = 0usize;
        loop {
            self.alt_path.push((alt_id, arm));
            let a = self.alternative();
            self.alt_path.pop();
            arms.push(a?);
            if self.eat('|') {
                arm += 1;
                continue;
            }
            break;
        }
        self.depth -= 1;
        Ok(if arms.len() == 1 { arms.pop().unwrap() } else { Ast::Alt(arms) })
    }

    fn alternative(&mut self) -> R<Ast> {
        let mut items = vec![];
        loop {
            match self.peek() {
                None => break,
                Some(c) if c == '|' as u32 || c == ')' as u32 => break,
                _ => {}
            }
            items.push(self.term()?);
        }
        Ok(match items.len() {
            0 => Ast::Empty,
            1 => items.pop().unwrap(),
            _ => Ast::Seq(items),
        })
    }

    fn term(&mut self) -> R<Ast> {
        let group_before = self.ngroups;
        let c = self.peek().unwrap();
        let ch = char::from_u32(c).unwrap_or('\u{FFFD}');
        // Assertions (never quantifiable), except legacy lookaheads
        let (atom, quantifiable): (Ast, bool) = match ch {
            '^' => {
                self.i += 1;
                (Ast::Bol, false)
            }
            '$' => {
                self.i += 1;
                (Ast::Eol, false)
            }
            '\\' if self.peek_at(1) == Some('b' as u32) => {
                self.i += 2;
                (Ast::WordB, false)
            }
            '\\' if self.peek_at(1) == Some('B' as u32) => {
                self.i += 2;
                (Ast::NotWordB, false)
            }
            '(' => {
                if self.looking_at("(?=") || self.looking_at("(?!") {
                    let neg = self.looking_at("(?!");
                    self.i += 3;
                    let body = self.disjunction()?;
                    if !self.eat(')') {
                        return err("unterminated group");
                    }
                    (Ast::Look { behind: false, neg, body: Box::new(body) }, !self.fl.u)
                } else if self.looking_at("(?<=") || self.looking_at("(?<!") {
                    let neg = self.looking_at("(?<!");
                    self.i += 4;
                    let body = self.disjunction()?;
                    if !self.eat(')') {
                        return err("unterminated group");
                    }
                    (Ast::Look { behind: true, neg, body: Box::new(body) }, false)
                } else {
                    (self.group()?, true)
                }
            }
            '.' => {
                self.i += 1;
                (Ast::Dot, true)
            }
            '[' => (self.class()?, true),
            '\\' => (self.atom_escape()?, true),
            '*' | '+' | '?' => return err("nothing to repeat"),
            ')' => return err("unmatched )"),
            '{' => {
                if self.fl.u {
                    return err("lone quantifier bracket");
                }
                // Annex B: InvalidBracedQuantifier is an error; otherwise '{' is a literal
                let save = self.i;
                if self.braced_quantifier()?.is_some() {
                    return err("nothing to repeat");
                }
                self.i = save + 1;
                (Ast::Char(c), true)
            }
            '}' | ']' => {
                if self.fl.u {
                    return err("lone bracket");
                }
                self.i += 1;
                (Ast::Char(c), true)
            }
            _ => {
                self.i += 1;
                (Ast::Char(c), true)
            }
        };
        // Quantifier
        let save = self.i;
        let q = self.quantifier()?;
        match q {
            None => Ok(atom),
            Some((min, max, greedy)) => {
                if !quantifiable {
                    self.i = save;
                    return err("nothing to repeat (assertion)");
                }
                if let Some(m) = max {
                    if min > m {
                        return err("numbers out of order in quantifier");
                    }
                }
                Ok(Ast::Repeat { body: Box::new(atom), min, max, greedy, paren_index: group_before, paren_count: self.ngroups - group_before })
            }
        }
    }

    fn decimal(&mut self) -> Option<u64> {
        let start = self.i;
        let mut v: u64 = 0;
        while let Some(c) = self.peek() {
            if is_digit(c) {
                v = v.saturating_mul(10).saturating_add((c - 0x30) as u64);
                self.i += 1;
            } else {
                break;
            }
        }
        if self.i == start {
            None
        } else {
            Some(v)
        }
    }

    /// `{n}` `{n,}` `{n,m}` at the current position; None (position unchanged) if it is not a complete braced quantifier.
    fn braced_quantifier(&mut self) -> R<Option<(u64, Option<u64>)>> {
        let save = self.i;
        if !self.eat('{') {
            return Ok(None);
        }
        let min = match self.decimal() {
            Some(v) => v,
            None => {
                self.i = save;
                return Ok(None);
            }
        };
        let max;
        if self.eat(',') {
            if self.peek() == Some('}' as u32) {
                max = None;
            } else {
                match self.decimal() {
                    Some(v) => max = Some(v),
                    None => {
                        self.i = save;
                        return Ok(None);
                    }
                }
            }
        } else {
            max = Some(min);
        }
        if !self.eat('}') {
            self.i = save;
            return Ok(None);
        }
        Ok(Some((min, max)))
    }

    fn quantifier(&mut self) -> R<Option<(u64, Option<u64>, bool)>> {
        let (min, max) = match self.peek().and_then(char::from_u32) {
            Some('*') => {
                self.i += 1;
                (0, None)
            }
            Some('+') => {
                self.i += 1;
                (1, None)
            }
            Some('?') => {
                self.i += 1;
                (0, Some(1))
            }
            Some('{') => match self.braced_quantifier()? {
                Some(q) => q,
                None => {
                    if self.fl.u {
                        return err("incomplete quantifier");
                    }
                    return Ok(None);
                }
            },
            _ => return Ok(None),
        };
        let greedy = !self.eat('?');
        Ok(Some((min, max, greedy)))
    }

    fn group(&mut self) -> R<Ast> {
        // at '('
        self.i += 1;
        if self.eat('?') {
            if self.eat(':') {
                let body = self.disjunction()?;
                if !self.eat(')') {
                    return err("unterminated group");
                }
                return Ok(body_as_group(body));
            }
            if self.peek() == Some('<' as u32) {
                self.i += 1;
                let name = self.group_name()?;
                return self.capture(Some(name));
            }
            // modifiers (?ims-ims:
            let mut add = 0u8;
            let mut remove = 0u8;
            let mut seen_dash = false;
            let mut any = false;
            loop {
                let c = match self.peek().and_then(char::from_u32) {
                    Some(c) => c,
                    None => return err("invalid group"),
                };
                self.i += 1;
                let bit = match c {
                    'i' => 1,
                    'm' => 2,
                    's' => 4,
                    '-' if !seen_dash => {
                        seen_dash = true;
                        continue;
                    }
                    ':' => break,
                    _ => return err("invalid group"),
                };
                any = true;
                if (add | remove) & bit != 0 {
                    return err("repeated flag in modifiers");
                }
                if seen_dash {
                    remove |= bit
                } else {
                    add |= bit
                }
            }
            if !any {
                // "(?-:" is an error; "(?:" was handled above
                return err("invalid group");
            }
            let body = self.disjunction()?;
            if !self.eat(')') {
                return err("unterminated group");
            }
            return Ok(Ast::Mods { add, remove, body: Box::new(body) });
        }
        self.capture(None)
    }

    fn capture(&mut self, name: Option<String>) -> R<Ast> {
        self.ngroups += 1;
        let idx = self.ngroups;
        self.names.push(name.clone());
        self.group_paths.push(self.alt_path.clone());
        let body = self.disjunction()?;
        if !self.eat(')') {
            return err("unterminated group");
        }
        Ok(Ast::Group { idx, name, body: Box::new(body) })
    }

    /// after '<' : RegExpIdentifierName '>'
    fn group_name(&mut self) -> R<String> {
        let mut s = String::new();
        let mut first = true;
        loop {
            let c = match self.peek() {
                Some(c) => c,
                None => return err("invalid capture group name"),
            };
            if c == '>' as u32 {
                self.i += 1;
                break;
            }
            let cp = if c == '\\' as u32 {
                self.i += 1;
                if self.peek() != Some('u' as u32) {
                    return err("invalid escape in group name");
                }
                self.i += 1;
                // RegExpUnicodeEscapeSequence[+UnicodeMode]
                match self.unicode_escape_body(true)? {
                    Some(v) => v,
                    None => return err("invalid unicode escape in group name"),
                }
            } else {
                self.i += 1;
                c
            };
            let ok = if first { is_id_start(cp) } else { is_id_continue(cp) };
            if !ok {
                return err("invalid capture group name");
            }
            match char::from_u32(cp) {
                Some(ch) => s.push(ch),
                None => return err("invalid capture group name"),
            }
            first = false;
        }
        if s.is_empty() {
            return err("empty capture group name");
        }
        Ok(s)
    }

    /// after `\u`: returns Some(code point) when a unicode escape of the given mode is present (position advanced),
    /// None (position unchanged) otherwise.
    fn unicode_escape_body(&mut self, umode: bool) -> R<Option<u32>> {
        let save = self.i;
        let hex4 = |p: &P, at: usize| -> Option<u32> {
            let mut v = 0;
            for k in 0..4 {
                v = v * 16 + hexval(p.p.get(at + k).copied()?)?;
            }
            Some(v)
        };
        if umode && self.peek() == Some('{' as u32) {
            let mut k = self.i + 1;
            let mut v: u32 = 0;
            let mut n = 0;
            while let Some(h) = self.p.get(k).copied().and_then(hexval) {
                v = v.saturating_mul(16).saturating_add(h);
                if v > 0x10FFFF {
                    return err("unicode escape out of range");
                }
                k += 1;
                n += 1;
            }
            if n == 0 || self.p.get(k).copied() != Some('}' as u32) {
                return err("invalid unicode escape");
            }
            self.i = k + 1;
            return Ok(Some(v));
        }
        if let Some(v) = hex4(self, self.i) {
            self.i += 4;
            // surrogate pair written as two escapes denotes one code point (see DESIGN 2.3: code point input)
            if (0xD800..=0xDBFF).contains(&v) && self.looking_at("\\u") {
                if let Some(t) = hex4(self, self.i + 2) {
                    if (0xDC00..=0xDFFF).contains(&t) {
                        self.i += 6;
                        return Ok(Some(0x10000 + ((v - 0xD800) << 10) + (t - 0xDC00)));
                    }
                }
            }
            return Ok(Some(v));
        }
        self.i = save;
        Ok(None)
    }

    /// CharacterEscape (shared by atoms and classes). `in_class` only matters for Annex B details handled by callers.
    /// Position: just after the backslash. Returns the code point.
    fn character_escape(&mut self) -> R<u32> {
        let c = match self.peek() {
            Some(c) => c,
            None => return err("\\ at end of pattern"),
        };
        let ch = char::from_u32(c).unwrap_or('\u{FFFD}');
        match ch {
            'f' => {
                self.i += 1;
                Ok(0x0C)
            }
            'n' => {
                self.i += 1;
                Ok(0x0A)
            }
            'r' => {
                self.i += 1;
                Ok(0x0D)
            }
            't' => {
                self.i += 1;
                Ok(0x09)
            }
            'v' => {
                self.i += 1;
                Ok(0x0B)
            }
            'c' => {
                if let Some(l) = self.peek_at(1) {
                    if matches!(char::from_u32(l), Some('a'..='z' | 'A'..='Z')) {
                        self.i += 2;
                        return Ok(l % 32);
                    }
                }
                err("invalid \\c escape")
            }
            '0' if !self.peek_at(1).map(is_digit).unwrap_or(false) => {
                self.i += 1;
                Ok(0)
            }
            '0'..='7' if !self.fl.u => {
                // LegacyOctalEscapeSequence
                let d0 = c - 0x30;
                let d1 = self.peek_at(1).filter(|x| (0x30..=0x37).contains(x)).map(|x| x - 0x30);
                let d2 = self.peek_at(2).filter(|x| (0x30..=0x37).contains(x)).map(|x| x - 0x30);
                match (d0, d1, d2) {
                    (0..=3, Some(a), Some(b)) => {
                        self.i += 3;
                        Ok(d0 * 64 + a * 8 + b)
                    }
                    (_, Some(a), _) => {
                        self.i += 2;
                        Ok(d0 * 8 + a)
                    }
                    _ => {
                        self.i += 1;
                        Ok(d0)
                    }
                }
            }
            'x' => {
                let h1 = self.peek_at(1).and_then(hexval);
                let h2 = self.peek_at(2).and_then(hexval);
                if let (Some(a), Some(b)) = (h1, h2) {
                    self.i += 3;
                    return Ok(a * 16 + b);
                }
                if self.fl.u {
                    return err("invalid hex escape");
                }
                self.i += 1;
                Ok(c)
            }
            'u' => {
                self.i += 1;
                let umode = self.fl.u || self.q.legacy_u_brace_is_codepoint_escape;
                match self.unicode_escape_body(umode) {
                    Ok(Some(v)) => Ok(v),
                    Ok(None) => {
                        if self.fl.u {
                            err("invalid unicode escape")
                        } else {
                            Ok(c)
                        }
                    }
                    Err(e) => {
                        if self.fl.u {
                            Err(e)
                        } else {
                            Ok(c)
                        }
                    }
                }
            }
            _ => {
                // IdentityEscape
                if self.fl.u {
                    if is_syntax(c) || ch == '/' {
                        self.i += 1;
                        Ok(c)
                    } else {
                        err("invalid identity escape")
                    }
                } else {
                    if ch == 'c' || (self.n && ch == 'k') {
                        return err("invalid escape");
                    }
                    self.i += 1;
                    Ok(c)
                }
            }
        }
    }

    fn class_escape_kind(c: u32) -> Option<u8> {
        match char::from_u32(c) {
            Some('d') => Some(b'd'),
            Some('D') => Some(b'D'),
            Some('s') => Some(b's'),
            Some('S') => Some(b'S'),
            Some('w') => Some(b'w'),
            Some('W') => Some(b'W'),
            _ => None,
        }
    }

    /// `\p{...}` / `\P{...}` (position at 'p'/'P'); +U only.
    fn property_escape(&mut self) -> R<ClassNode> {
        let neg = self.peek() == Some('P' as u32);
        self.i += 1;
        if !self.eat('{') {
            return err("invalid property escape");
        }
        let mut expr = String::new();
        loop {
            match self.peek() {
                None => return err("unterminated property escape"),
                Some(c) if c == '}' as u32 => {
                    self.i += 1;
                    break;
                }
                Some(c) => {
                    match char::from_u32(c) {
                        Some(ch) if ch.is_ascii_alphanumeric() || ch == '_' || ch == '=' => expr.push(ch),
                        _ => return err("invalid property name"),
                    }
                    self.i += 1;
                }
            }
        }
        if udata::lookup_property(&expr).is_some() {
            return Ok(ClassNode::Prop { neg, expr });
        }
        if udata::is_string_property(&expr) {
            if !self.fl.v {
                return err("property of strings requires the v flag");
            }
            if neg {
                return err("negated property of strings");
            }
            return Ok(ClassNode::StrProp(expr));
        }
        err("unknown property")
    }

    fn atom_escape(&mut self) -> R<Ast> {
        // at '\'
        self.i += 1;
        let c = match self.peek() {
            Some(c) => c,
            None => return err("\\ at end of pattern"),
        };
        let ch = char::from_u32(c).unwrap_or('\u{FFFD}');
        // DecimalEscape
        if ('1'..='9').contains(&ch) {
            let save = self.i;
            let n = self.decimal().unwrap();
            if self.fl.u {
                if let Some(t) = self.total_groups {
                    if n as usize > t || n > u32::MAX as u64 {
                        return err("invalid backreference");
                    }
                }
                return Ok(Ast::BackRef(n.min(u32::MAX as u64) as usize));
            }
            match self.total_groups {
                Some(t) if (n as usize) <= t && n <= u32::MAX as u64 => return Ok(Ast::BackRef(n as usize)),
                None => return Ok(Ast::BackRef(n.min(u32::MAX as u64) as usize)),
                _ => {
                    // not a backreference: legacy octal or identity escape
                    self.i = save;
                    let v = self.character_escape()?;
                    return Ok(Ast::Char(v));
                }
            }
        }
        if let Some(k) = Self::class_escape_kind(c) {
            self.i += 1;
            return Ok(Ast::Class(ClassNode::Esc(k)));
        }
        if (ch == 'p' || ch == 'P') && self.fl.u {
            let node = self.property_escape()?;
            return Ok(Ast::Class(node));
        }
        if ch == 'k' && self.n {
            self.i += 1;
            if !self.eat('<') {
                return err("invalid named reference");
            }
            let name = self.group_name()?;
            self.named_refs.push(name.clone());
            return Ok(Ast::NamedRef(name));
        }
        if ch == 'c' && !self.fl.u {
            // Annex B: `\c` not followed by a control letter: the backslash is a literal
            let ok = self.peek_at(1).map(|l| matches!(char::from_u32(l), Some('a'..='z' | 'A'..='Z'))).unwrap_or(false);
            if !ok {
                return Ok(Ast::Char('\\' as u32));
            }
        }
        let v = self.character_escape()?;
        Ok(Ast::Char(v))
    }

    // ---- classes

    fn class(&mut self) -> R<Ast> {
        if self.fl.v {
            let node = self.class_v()?;
            return Ok(Ast::Class(node));
        }
        // at '['
        self.i += 1;
        let neg = self.eat('^');
        let mut items: Vec<ClassNode> = vec![];
        loop {
            match self.peek() {
                None => return err("unterminated character class"),
                Some(c) if c == ']' as u32 => {
                    self.i += 1;
                    break;
                }
                _ => {}
            }
            let a = self.class_atom()?;
            if self.peek() == Some('-' as u32) && self.peek_at(1).is_some() && self.peek_at(1) != Some(']' as u32) {
                self.i += 1;
                let b = self.class_atom()?;
                match (&a, &b) {
                    (ClassNode::Char(x), ClassNode::Char(y)) => {
                        if x > y {
                            return err("range out of order in character class");
                        }
                        items.push(ClassNode::Range(*x, *y));
                    }
                    _ => {
                        if self.fl.u {
                            return err("invalid character class range");
                        }
                        items.push(a);
                        items.push(ClassNode::Char('-' as u32));
                        items.push(b);
                    }
                }
            } else {
                items.push(a);
            }
        }
        let u = ClassNode::Union(items);
        Ok(Ast::Class(if neg { ClassNode::Neg(Box::new(u)) } else { u }))
    }

    fn class_atom(&mut self) -> R<ClassNode> {
        let c = self.peek().unwrap();
        if c != '\\' as u32 {
            self.i += 1;
            return Ok(ClassNode::Char(c));
        }
        self.i += 1;
        let e = match self.peek() {
            Some(e) => e,
            None => return err("\\ at end of pattern"),
        };
        let ech = char::from_u32(e).unwrap_or('\u{FFFD}');
        if ech == 'b' {
            self.i += 1;
            return Ok(ClassNode::Char(8));
        }
        if ech == '-' && self.fl.u {
            self.i += 1;
            return Ok(ClassNode::Char('-' as u32));
        }
        if let Some(k) = Self::class_escape_kind(e) {
            self.i += 1;
            return Ok(ClassNode::Esc(k));
        }
        if (ech == 'p' || ech == 'P') && self.fl.u {
            return self.property_escape();
        }
        if ech == 'c' && !self.fl.u {
            // ClassControlLetter: digit or '_' (or a letter, via CharacterEscape); otherwise the backslash is literal
            if let Some(l) = self.peek_at(1) {
                if is_digit(l) || l == '_' as u32 {
                    self.i += 2;
                    return Ok(ClassNode::Char(l % 32));
                }
                if matches!(char::from_u32(l), Some('a'..='z' | 'A'..='Z')) {
                    self.i += 2;
                    return Ok(ClassNode::Char(l % 32));
                }
            }
            return Ok(ClassNode::Char('\\' as u32));
        }
        if self.fl.u && is_digit(e) && !(e == '0' as u32 && !self.peek_at(1).map(is_digit).unwrap_or(false)) {
            return err("invalid class escape");
        }
        if !self.fl.u && (ech == '8' || ech == '9') {
            self.i += 1;
            return Ok(ClassNode::Char(e));
        }
        let v = self.character_escape()?;
        Ok(ClassNode::Char(v))
    }

    // ---- v-mode classes

    fn is_double_punct_at(&self, k: usize) -> bool {
        match (self.peek_at(k).and_then(char::from_u32), self.peek_at(k + 1).and_then(char::from_u32)) {
            (Some(a), Some(b)) if a == b => matches!(a, '&' | '!' | '#' | '$' | '%' | '*' | '+' | ',' | '.' | ':' | ';' | '<' | '=' | '>' | '?' | '@' | '^' | '`' | '~'),
            _ => false,
        }
    }

    /// ClassSetCharacter; None if the next thing is not one (position unchanged).
    fn class_set_character(&mut self) -> R<Option<u32>> {
        let c = match self.peek() {
            Some(c) => c,
            None => return Ok(None),
        };
        let ch = char::from_u32(c).unwrap_or('\u{FFFD}');
        if ch == '\\' {
            let e = match self.peek_at(1) {
                Some(e) => e,
                None => return err("\\ at end of pattern"),
            };
            let ech = char::from_u32(e).unwrap_or('\u{FFFD}');
            if ech == 'b' {
                self.i += 2;
                return Ok(Some(8));
            }
            if matches!(ech, '&' | '-' | '!' | '#' | '%' | ',' | ':' | ';' | '<' | '=' | '>' | '@' | '`' | '~') {
                self.i += 2;
                return Ok(Some(e));
            }
            if Self::class_escape_kind(e).is_some() || ech == 'p' || ech == 'P' || ech == 'q' {
                return Ok(None);
            }
            self.i += 1;
            if is_digit(e) && !(e == '0' as u32 && !self.peek_at(1).map(is_digit).unwrap_or(false)) {
                return err("invalid class escape");
            }
            let v = self.character_escape()?;
            return Ok(Some(v));
        }
        if matches!(ch, '(' | ')' | '[' | ']' | '{' | '}' | '/' | '-' | '|') {
            return Ok(None);
        }
        if self.is_double_punct_at(0) {
            return Ok(None);
        }
        self.i += 1;
        Ok(Some(c))
    }

    /// ClassSetOperand (nested class, \q{}, class escape, or a single character); None if none is present.
    fn class_set_operand(&mut self) -> R<Option<ClassNode>> {
        let c = match self.peek() {
            Some(c) => c,
            None => return Ok(None),
        };
        let ch = char::from_u32(c).unwrap_or('\u{FFFD}');
        if ch == '[' {
            return Ok(Some(self.class_v()?));
        }
        if ch == '\\' {
            if let Some(e) = self.peek_at(1) {
                let ech = char::from_u32(e).unwrap_or('\u{FFFD}');
                if let Some(k) = Self::class_escape_kind(e) {
                    self.i += 2;
                    return Ok(Some(ClassNode::Esc(k)));
                }
                if ech == 'p' || ech == 'P' {
                    self.i += 1;
                    return Ok(Some(self.property_escape()?));
                }
                if ech == 'q' {
                    self.i += 2;
                    if !self.eat('{') {
                        return err("invalid \\q");
                    }
                    let mut strs = vec![];
                    let mut cur = vec![];
                    loop {
                        match self.peek() {
                            None => return err("unterminated \\q{"),
                            Some(x) if x == '}' as u32 => {
                                self.i += 1;
                                strs.push(cur);
                                break;
                            }
                            Some(x) if x == '|' as u32 => {
                                self.i += 1;
                                strs.push(std::mem::take(&mut cur));
                            }
                            _ => match self.class_set_character()? {
                                Some(v) => cur.push(v),
                                None => return err("invalid character in \\q{}"),
                            },
                        }
                    }
                    return Ok(Some(ClassNode::Strings(strs)));
                }
            }
        }
        Ok(self.class_set_character()?.map(ClassNode::Char))
    }

    fn class_v(&mut self) -> R<ClassNode> {
        self.depth += 1;
        if self.depth > MAX_DEPTH {
            return err("too deeply nested (reference model limit)");
        }
        // at '['
        self.i += 1;
        let neg = self.eat('^');
        let mut items: Vec<ClassNode> = vec![];
        #[derive(PartialEq)]
        enum Mode {
            Unknown,
            Union,
            Inter,
            Sub,
        }
        let mut mode = Mode::Unknown;
        let mut first_was_range = false;
        loop {
            match self.peek() {
                None => return err("unterminated character class"),
                Some(c) if c == ']' as u32 => {
                    self.i += 1;
                    break;
                }
                _ => {}
            }
            if mode == Mode::Inter || mode == Mode::Sub {
                // expect operator then operand
                let op = if mode == Mode::Inter { "&&" } else { "--" };
                if !self.eat_str(op) {
                    return err("mixed or missing class set operator");
                }
                if mode == Mode::Inter && self.peek() == Some('&' as u32) {
                    return err("invalid &&&");
                }
                match self.class_set_operand()? {
                    Some(o) => items.push(o),
                    None => return err("missing class set operand"),
                }
                continue;
            }
            if !items.is_empty() && mode == Mode::Unknown {
                if self.looking_at("&&") {
                    if first_was_range {
                        return err("range as operand of &&");
                    }
                    mode = Mode::Inter;
                    continue;
                }
                if self.looking_at("--") {
                    if first_was_range {
                        return err("range as operand of --");
                    }
                    mode = Mode::Sub;
                    continue;
                }
                mode = Mode::Union;
            }
            // union member: operand or range
            let o = match self.class_set_operand()? {
                Some(o) => o,
                None => return err("invalid character in class"),
            };
            if let ClassNode::Char(a) = o {
                if self.peek() == Some('-' as u32) && self.peek_at(1) != Some('-' as u32) {
                    // ClassSetRange
                    self.i += 1;
                    match self.class_set_character()? {
                        Some(b) => {
                            if a > b {
                                return err("range out of order in character class");
                            }
                            if items.is_empty() {
                                first_was_range = true;
                            }
                            items.push(ClassNode::Range(a, b));
                            continue;
                        }
                        None => return err("invalid class set range"),
                    }
                }
            }
            if items.is_empty() {
                first_was_range = false;
            }
            items.push(o);
        }
        self.depth -= 1;
        let node = match mode {
            Mode::Inter => ClassNode::Inter(items),
            Mode::Sub => ClassNode::Sub(items),
            _ => ClassNode::Union(items),
        };
        if neg {
            if may_contain_strings(&node) {
                return err("negated class may contain strings");
            }
            Ok(ClassNode::Neg(Box::new(node)))
        } else {
            Ok(node)
        }
    }
}

fn body_as_group(body: Ast) -> Ast {
    // a non-capturing group is transparent, but keeps the body atomic for quantification
    match body {
        Ast::Seq(_) | Ast::Alt(_) | Ast::Empty => Ast::Seq(vec![body]),
        b => b,
    }
}

pub fn may_contain_strings(n: &ClassNode) -> bool {
    match n {
        ClassNode::Char(_) | ClassNode::Range(..) | ClassNode::Esc(_) | ClassNode::Prop { .. } | ClassNode::Neg(_) => false,
        ClassNode::StrProp(_) => true,
        ClassNode::Strings(v) => v.iter().any(|s| s.len() != 1),
        ClassNode::Union(v) => v.iter().any(may_contain_strings),
        ClassNode::Inter(v) => v.iter().all(may_contain_strings),
        ClassNode::Sub(v) => v.first().map(may_contain_strings).unwrap_or(false),
    }
}

fn is_id_start(c: u32) -> bool {
    c == '$' as u32 || c == '_' as u32 || udata::lookup_property("ID_Start").map(|s| s.contains(c)).unwrap_or(false)
}

fn is_id_continue(c: u32) -> bool {
    c == '$' as u32 || c == 0x200C || c == 0x200D || udata::lookup_property("ID_Continue").map(|s| s.contains(c)).unwrap_or(false)
}

fn might_both_participate(a: &[(usize, usize)], b: &[(usize, usize)]) -> bool {
    for (ida, arma) in a {
        for (idb, armb) in b {
            if ida == idb && arma != armb {
                return false;
            }
        }
    }
    true
}

fn parse_pass(p: &[u32], fl: PFlags, n: bool, total: Option<usize>, q: Quirks) -> R<(Ast, P<'_>)> {
    let mut ps = P {
        p,
        i: 0,
        fl,
        n,
        ngroups: 0,
        total_groups: total,
        names: vec![],
        alt_path: vec![],
        group_paths: vec![],
        next_alt_id: 0,
        named_refs: vec![],
        depth: 0,
        q,
    };
    let ast = ps.disjunction()?;
    if ps.i < p.len() {
        return err(if p[ps.i] == ')' as u32 { "unmatched )" } else { "unexpected character" });
    }
    Ok((ast, ps))
}

pub fn parse(p: &[u32], fl: PFlags) -> R<Parsed> {
    parse_q(p, fl, Quirks::default())
}

pub fn parse_q(p: &[u32], fl: PFlags, q: Quirks) -> R<Parsed> {
    // pass 1: count groups, find out whether there are named groups (NamedCaptureGroups parameter)
    let mut n = fl.u;
    let (total, has_names) = {
        let (_, ps) = parse_pass(p, fl, n, None, q)?;
        (ps.ngroups, ps.names.iter().any(|x| x.is_some()))
    };
    if has_names {
        n = true;
    }
    let total = if n != fl.u {
        // re-count with +N (the grammar of \k differs; group structure cannot, but stay literal to the spec)
        let (_, ps) = parse_pass(p, fl, n, None, q)?;
        ps.ngroups
    } else {
        total
    };
    let (ast, ps) = parse_pass(p, fl, n, Some(total), q)?;
    // early errors over the whole pattern
    for r in &ps.named_refs {
        if !ps.names.iter().any(|x| x.as_deref() == Some(r.as_str())) {
            return err("named reference to a group that does not exist");
        }
    }
    for i in 0..ps.names.len() {
        for j in (i + 1)..ps.names.len() {
            if ps.names[i].is_some() && ps.names[i] == ps.names[j] {
                let both = if q.dup_names_only_checked_by_depth { false } else { might_both_participate(&ps.group_paths[i], &ps.group_paths[j]) };
                if both {
                    return err("duplicate capture group name");
                }
            }
        }
    }
    Ok(Parsed { ast, ngroups: ps.ngroups, names: ps.names })
}

#[allow(dead_code)]
pub fn unused(_: CpSet) {}
