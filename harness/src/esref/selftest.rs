//! Oracle self-test: the reference model must reproduce the frozen V8 verdicts (oracle/v8_corpus.jsonl).
//! A mismatch means the ORACLE drifted: the caller exits 2 (machinery unusable), never reports a violation.

use super::*;
use crate::pat::Fl;
use serde_json::Value;

fn units_to_cps(u: &[u16]) -> Vec<u32> {
    char::decode_utf16(u.iter().copied()).map(|r| r.map(|c| c as u32).unwrap_or(0xFFFD)).collect()
}

pub fn run() -> Result<(usize, usize), String> {
    let path = format!("{}/oracle/v8_corpus.jsonl", crate::drv::verif_dir());
    let txt = std::fs::read_to_string(&path).map_err(|e| format!("{}: {}", path, e))?;
    let mut n = 0;
    let mut m = 0;
    for line in txt.lines() {
        let v: Value = serde_json::from_str(line).map_err(|e| e.to_string())?;
        let pu: Vec<u16> = v["p"].as_array().map(|a| a.iter().map(|x| x.as_u64().unwrap_or(0) as u16).collect()).unwrap_or_default();
        let p = units_to_cps(&pu);
        let fl = Fl::parse(v["f"].as_str().unwrap_or(""));
        n += 1;
        if v["k"] == "soup" {
            let ok = accepts(&p, fl).is_ok();
            if Some(ok) != v["v8_ok"].as_bool() {
                return Err(format!("acceptance of /{}/{} : reference {}, frozen V8 verdict {}", crate::pat::show(&p), fl.text(), ok, v["v8_ok"]));
            }
            continue;
        }
        let hu: Vec<u16> = v["h"].as_array().map(|a| a.iter().map(|x| x.as_u64().unwrap_or(0) as u16).collect()).unwrap_or_default();
        let hay = String::from_utf16_lossy(&hu);
        let s16 = v["s"].as_u64().unwrap_or(0) as usize;
        // utf16 offset -> byte offset
        let to8 = |k: usize| -> usize {
            let mut u = 0;
            for (i, c) in hay.char_indices() {
                if u >= k {
                    return i;
                }
                u += c.len_utf16();
            }
            hay.len()
        };
        let to16 = |b: usize| -> usize { hay[..b].chars().map(|c| c.len_utf16()).sum() };
        let got: Value = match compile(&p, fl) {
            Err(RefErr::Syntax(_)) => Value::String("syntax".into()),
            Err(RefErr::Decline(_)) => continue,
            Ok(r) => match r.find(&hay, to8(s16), 5_000_000).0 {
                Found::Aborted => continue,
                Found::NoMatch => Value::Null,
                Found::Match(mm) => {
                    m += 1;
                    serde_json::json!({"s": to16(mm.s), "e": to16(mm.e), "caps": mm.caps.iter().map(|c| c.map(|(a, b)| vec![to16(a), to16(b)])).collect::<Vec<_>>()})
                }
            },
        };
        let want = &v["v8"];
        let same = match (want, &got) {
            (Value::Null, Value::Null) => true,
            (Value::String(a), Value::String(b)) => a == b,
            (Value::Object(a), Value::Object(b)) => a.get("s") == b.get("s") && a.get("e") == b.get("e") && a.get("caps") == b.get("caps"),
            _ => false,
        };
        if !same {
            return Err(format!("/{}/{} on {:?} from {}: reference {}, frozen V8 verdict {}", crate::pat::show(&p), fl.text(), hay, s16, got, want));
        }
    }
    Ok((n, m))
}

/// Called at the start of every check that uses the reference model.
pub fn ensure() {
    match run() {
        Ok(_) => {}
        Err(e) => {
            println!("ORACLE SELF-TEST FAILED (reference model disagrees with the frozen V8 corpus): {}", e);
            std::process::exit(2);
        }
    }
}
