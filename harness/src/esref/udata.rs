//! Unicode data for the reference model: property sets exported from V8/ICU (Unicode 17, /verif/oracle),
//! canonicalisation from crate::uni. Nothing here comes from regress.

use super::cpset::CpSet;
use std::collections::{HashMap, HashSet};
use std::sync::OnceLock;

pub struct PropDb {
    pub names: HashMap<String, usize>,
    pub sets: Vec<CpSet>,
    pub vonly: HashSet<String>,
}

pub fn propdb() -> &'static PropDb {
    static DB: OnceLock<PropDb> = OnceLock::new();
    DB.get_or_init(|| {
        let dir = format!("{}/oracle", crate::drv::verif_dir());
        let sets_txt = std::fs::read_to_string(format!("{}/v8_sets.tsv", dir)).expect("oracle/v8_sets.tsv missing");
        let names_txt = std::fs::read_to_string(format!("{}/v8_names.tsv", dir)).expect("oracle/v8_names.tsv missing");
        let vonly_txt = std::fs::read_to_string(format!("{}/v8_vonly.txt", dir)).unwrap_or_default();
        let mut sets: Vec<CpSet> = vec![];
        for line in sets_txt.lines() {
            let mut it = line.splitn(2, '\t');
            let id: usize = it.next().unwrap_or("0").parse().unwrap_or(0);
            let r = it.next().unwrap_or("");
            if sets.len() <= id {
                sets.resize(id + 1, CpSet::new());
            }
            sets[id] = CpSet::parse_hex_ranges(r);
        }
        let mut names = HashMap::new();
        for line in names_txt.lines() {
            let mut it = line.splitn(2, '\t');
            let n = it.next().unwrap_or("").to_string();
            let id: usize = it.next().unwrap_or("0").trim().parse().unwrap_or(0);
            if !n.is_empty() {
                names.insert(n, id);
            }
        }
        let vonly = vonly_txt.lines().map(|s| s.trim().to_string()).filter(|s| !s.is_empty()).collect();
        PropDb { names, sets, vonly }
    })
}

/// `expr` is the exact text between the braces of \p{...}.
pub fn lookup_property(expr: &str) -> Option<&'static CpSet> {
    let db = propdb();
    db.names.get(expr).map(|id| &db.sets[*id])
}

pub fn is_string_property(expr: &str) -> bool {
    propdb().vonly.contains(expr)
}

/// (c, canon(c)) for every code point with canon(c) != c.
pub fn nonid_canon(unicode: bool) -> &'static Vec<(u32, u32)> {
    static L: OnceLock<Vec<(u32, u32)>> = OnceLock::new();
    static U: OnceLock<Vec<(u32, u32)>> = OnceLock::new();
    if unicode {
        U.get_or_init(|| {
            let mut v: Vec<(u32, u32)> = crate::uni::scf().rep.iter().filter(|(c, r)| c != r).map(|(c, r)| (*c, *r)).collect();
            v.sort();
            v
        })
    } else {
        L.get_or_init(|| {
            let mut v = vec![];
            for c in 0..=0x10FFFFu32 {
                let k = crate::uni::legacy_canon(c);
                if k != c {
                    v.push((c, k));
                }
            }
            v
        })
    }
}

pub fn canon(c: u32, unicode: bool) -> u32 {
    crate::uni::canon(c, unicode)
}

/// { canon(a) | a in set } (plus possibly some non-canonical members of `set`, which can never equal a canonical form).
pub fn canon_image(set: &CpSet, unicode: bool) -> CpSet {
    let mut extra = vec![];
    for (c, k) in nonid_canon(unicode) {
        if set.contains(*c) {
            extra.push((*k, *k));
        }
    }
    if extra.is_empty() {
        return set.clone();
    }
    let mut v = set.r.clone();
    v.extend(extra);
    CpSet::from_ranges(v)
}

/// the code points c with canon(c) == c (AllCharacters under v+i)
pub fn canonical_fixed_points(unicode: bool) -> CpSet {
    let v: Vec<(u32, u32)> = nonid_canon(unicode).iter().map(|(c, _)| (*c, *c)).collect();
    CpSet::from_ranges(v).complement()
}

pub fn line_terminators() -> CpSet {
    CpSet::from_ranges(vec![(0x0A, 0x0A), (0x0D, 0x0D), (0x2028, 0x2029)])
}

pub fn white_space() -> CpSet {
    // WhiteSpace (TAB VT FF ZWNBSP + Zs) union LineTerminator
    let mut v = vec![(0x09, 0x0D), (0x20, 0x20), (0xA0, 0xA0), (0xFEFF, 0xFEFF), (0x2028, 0x2029)];
    if let Some(zs) = lookup_property("gc=Zs") {
        v.extend(zs.r.iter().copied());
    } else {
        v.extend([(0x1680, 0x1680), (0x2000, 0x200A), (0x202F, 0x202F), (0x205F, 0x205F), (0x3000, 0x3000)]);
    }
    CpSet::from_ranges(v)
}

pub fn digits() -> CpSet {
    CpSet::from_ranges(vec![(0x30, 0x39)])
}

pub fn basic_word() -> CpSet {
    CpSet::from_ranges(vec![(0x30, 0x39), (0x41, 0x5A), (0x5F, 0x5F), (0x61, 0x7A)])
}

/// WordCharacters(rer)
pub fn word_characters(unicode: bool, icase: bool) -> CpSet {
    let basic = basic_word();
    if !(unicode && icase) {
        return basic;
    }
    let mut v = basic.r.clone();
    for (c, k) in nonid_canon(true) {
        if !basic.contains(*c) && basic.contains(*k) {
            v.push((*c, *c));
        }
    }
    // a non-basic character may also be the representative of a class with a basic member
    for (c, k) in nonid_canon(true) {
        if basic.contains(*c) && !basic.contains(*k) {
            // every member of that class is a word character under iu
            for (d, kd) in nonid_canon(true) {
                if kd == k {
                    v.push((*d, *d));
                }
            }
            v.push((*k, *k));
        }
    }
    CpSet::from_ranges(v)
}
