//! ECMA-262 22.2.2 pattern semantics: the continuation-passing matcher, transcribed; on code point input.

use super::cpset::CpSet;
use super::parse::{Ast, ClassNode, PFlags, Parsed};
use super::udata;
use std::cell::Cell;

#[derive(Clone, Copy, Debug, PartialEq, Eq)]
pub struct Rer {
    pub i: bool,
    pub m: bool,
    pub s: bool,
}

/// A character set ready for matching: `set` is already the canonical image when `icase`.
#[derive(Clone, Debug)]
pub struct CharSet {
    pub set: CpSet,
    pub invert: bool,
    pub icase: bool,
}

/// Value of a class expression: code points + strings (strings of length != 1 only; length-1 strings live in `cps`).
#[derive(Clone, Debug, Default, PartialEq)]
pub struct ClassVal {
    pub cps: CpSet,
    pub strs: Vec<Vec<u32>>, // sorted, deduped
}

#[derive(Debug)]
pub enum Node {
    Empty,
    Set(CharSet),
    /// v-mode class with strings: alternatives longest first, then the single-character set, then (optionally) empty
    StrClass { strings: Vec<Vec<CharSet>>, singles: CharSet, has_empty: bool },
    Seq(Vec<Node>),
    Alt(Vec<Node>),
    Group { idx: usize, body: Box<Node> },
    Look { behind: bool, neg: bool, body: Box<Node> },
    Repeat { body: Box<Node>, min: u64, max: Option<u64>, greedy: bool, paren_index: usize, paren_count: usize },
    BackRef { groups: Vec<usize>, icase: bool },
    Bol { multiline: bool },
    Eol { multiline: bool },
    WordB { neg: bool, word: CpSet },
}

pub struct Prog {
    pub root: Node,
    pub ngroups: usize,
    pub names: Vec<Option<String>>,
    pub unicode: bool,
}

struct Compiler<'a> {
    fl: PFlags,
    names: &'a [Option<String>],
}

fn norm_strs(mut v: Vec<Vec<u32>>) -> Vec<Vec<u32>> {
    v.sort();
    v.dedup();
    v
}

impl<'a> Compiler<'a> {
    fn fold_on(&self, rer: Rer) -> bool {
        // MaybeSimpleCaseFolding applies only under v + i
        self.fl.v && rer.i
    }

    fn fold_set(&self, s: &CpSet, rer: Rer) -> CpSet {
        if !self.fold_on(rer) {
            return s.clone();
        }
        // scf each element: elements that are not fixed points are replaced by their canonical form
        let mut add = vec![];
        let mut remove = vec![];
        for (c, k) in udata::nonid_canon(true) {
            if s.contains(*c) {
                add.push((*k, *k));
                remove.push((*c, *c));
            }
        }
        if add.is_empty() {
            return s.clone();
        }
        s.subtract(&CpSet::from_ranges(remove)).union(&CpSet::from_ranges(add))
    }

    fn all_characters(&self, rer: Rer) -> CpSet {
        if self.fold_on(rer) {
            udata::canonical_fixed_points(true)
        } else {
            CpSet::all()
        }
    }

    fn esc_set(&self, k: u8, rer: Rer) -> CpSet {
        let pos = match k.to_ascii_lowercase() {
            b'd' => udata::digits(),
            b's' => udata::white_space(),
            _ => udata::word_characters(self.fl.u, rer.i),
        };
        let pos = self.fold_set(&pos, rer);
        if k.is_ascii_uppercase() {
            // CharacterComplement(rer, S)
            self.all_characters(rer).subtract(&pos)
        } else {
            pos
        }
    }

    fn eval(&self, n: &ClassNode, rer: Rer) -> Result<ClassVal, String> {
        Ok(match n {
            ClassNode::Char(c) => ClassVal { cps: self.fold_set(&CpSet::single(*c), rer), strs: vec![] },
            ClassNode::Range(a, b) => ClassVal { cps: self.fold_set(&CpSet::from_ranges(vec![(*a, *b)]), rer), strs: vec![] },
            ClassNode::Esc(k) => ClassVal { cps: self.esc_set(*k, rer), strs: vec![] },
            ClassNode::Prop { neg, expr } => {
                let s = udata::lookup_property(expr).ok_or("unknown property")?;
                let s = self.fold_set(s, rer);
                ClassVal { cps: if *neg { self.all_characters(rer).subtract(&s) } else { s }, strs: vec![] }
            }
            ClassNode::StrProp(_) => return Err("property of strings: no independent enumeration (reference declines)".into()),
            ClassNode::Strings(v) => {
                let mut cps = vec![];
                let mut strs = vec![];
                for s in v {
                    let f: Vec<u32> = if self.fold_on(rer) { s.iter().map(|c| udata::canon(*c, true)).collect() } else { s.clone() };
                    if f.len() == 1 {
                        cps.push((f[0], f[0]));
                    } else {
                        strs.push(f);
                    }
                }
                ClassVal { cps: CpSet::from_ranges(cps), strs: norm_strs(strs) }
            }
            ClassNode::Union(v) => {
                let mut acc = ClassVal::default();
                for x in v {
                    let e = self.eval(x, rer)?;
                    acc.cps = acc.cps.union(&e.cps);
                    acc.strs.extend(e.strs);
                }
                acc.strs = norm_strs(acc.strs);
                acc
            }
            ClassNode::Inter(v) => {
                let mut it = v.iter();
                let mut acc = self.eval(it.next().ok_or("empty intersection")?, rer)?;
                for x in it {
                    let e = self.eval(x, rer)?;
                    acc.cps = acc.cps.intersect(&e.cps);
                    acc.strs.retain(|s| e.strs.contains(s));
                }
                acc
            }
            ClassNode::Sub(v) => {
                let mut it = v.iter();
                let mut acc = self.eval(it.next().ok_or("empty subtraction")?, rer)?;
                for x in it {
                    let e = self.eval(x, rer)?;
                    acc.cps = acc.cps.subtract(&e.cps);
                    acc.strs.retain(|s| !e.strs.contains(s));
                }
                acc
            }
            ClassNode::Neg(inner) => {
                let e = self.eval(inner, rer)?;
                if !e.strs.is_empty() {
                    return Err("complement of a set with strings".into());
                }
                ClassVal { cps: self.all_characters(rer).subtract(&e.cps), strs: vec![] }
            }
        })
    }

    fn charset(&self, set: &CpSet, invert: bool, rer: Rer) -> CharSet {
        if rer.i {
            CharSet { set: udata::canon_image(set, self.fl.u), invert, icase: true }
        } else {
            CharSet { set: set.clone(), invert, icase: false }
        }
    }

    fn class(&self, n: &ClassNode, rer: Rer) -> Result<Node, String> {
        if !self.fl.v {
            // legacy / u: CharacterSetMatcher(rer, A, invert): the complement is NOT taken on the set
            let (inner, invert) = match n {
                ClassNode::Neg(x) => (&**x, true),
                x => (x, false),
            };
            // \W, \D, \S, \P as *atoms* are sets of their own (complement taken on the set)
            let v = self.eval(inner, rer)?;
            return Ok(Node::Set(self.charset(&v.cps, invert, rer)));
        }
        let v = self.eval(n, rer)?;
        if v.strs.is_empty() {
            return Ok(Node::Set(self.charset(&v.cps, false, rer)));
        }
        let mut strs = v.strs.clone();
        let has_empty = strs.iter().any(|s| s.is_empty());
        strs.retain(|s| !s.is_empty());
        // descending length; ties keep a deterministic order (distinct equal-length strings cannot both match at one place
        // in a way that changes the result: after folding they differ in some position)
        strs.sort_by(|a, b| b.len().cmp(&a.len()).then(a.cmp(b)));
        let strings = strs.iter().map(|s| s.iter().map(|c| self.charset(&CpSet::single(*c), false, rer)).collect()).collect();
        Ok(Node::StrClass { strings, singles: self.charset(&v.cps, false, rer), has_empty })
    }

    fn node(&self, a: &Ast, rer: Rer) -> Result<Node, String> {
        Ok(match a {
            Ast::Empty => Node::Empty,
            Ast::Char(c) => Node::Set(self.charset(&CpSet::single(*c), false, rer)),
            Ast::Dot => {
                let mut s = CpSet::all();
                if !rer.s {
                    s = s.subtract(&udata::line_terminators());
                }
                Node::Set(CharSet { set: s, invert: false, icase: false })
            }
            Ast::Class(c) => self.class(c, rer)?,
            Ast::Seq(v) => Node::Seq(v.iter().map(|x| self.node(x, rer)).collect::<Result<_, _>>()?),
            Ast::Alt(v) => Node::Alt(v.iter().map(|x| self.node(x, rer)).collect::<Result<_, _>>()?),
            Ast::Group { idx, body, .. } => Node::Group { idx: *idx, body: Box::new(self.node(body, rer)?) },
            Ast::Mods { add, remove, body } => {
                let mut r = rer;
                if add & 1 != 0 {
                    r.i = true
                }
                if add & 2 != 0 {
                    r.m = true
                }
                if add & 4 != 0 {
                    r.s = true
                }
                if remove & 1 != 0 {
                    r.i = false
                }
                if remove & 2 != 0 {
                    r.m = false
                }
                if remove & 4 != 0 {
                    r.s = false
                }
                Node::Seq(vec![self.node(body, r)?])
            }
            Ast::Look { behind, neg, body } => Node::Look { behind: *behind, neg: *neg, body: Box::new(self.node(body, rer)?) },
            Ast::Repeat { body, min, max, greedy, paren_index, paren_count } => Node::Repeat {
                body: Box::new(self.node(body, rer)?),
                min: *min,
                max: *max,
                greedy: *greedy,
                paren_index: *paren_index,
                paren_count: *paren_count,
            },
            Ast::BackRef(n) => Node::BackRef { groups: vec![*n], icase: rer.i },
            Ast::NamedRef(name) => {
                let groups: Vec<usize> = self.names.iter().enumerate().filter(|(_, x)| x.as_deref() == Some(name.as_str())).map(|(i, _)| i + 1).collect();
                Node::BackRef { groups, icase: rer.i }
            }
            Ast::Bol => Node::Bol { multiline: rer.m },
            Ast::Eol => Node::Eol { multiline: rer.m },
            Ast::WordB => Node::WordB { neg: false, word: udata::word_characters(self.fl.u, rer.i) },
            Ast::NotWordB => Node::WordB { neg: true, word: udata::word_characters(self.fl.u, rer.i) },
        })
    }
}

pub fn compile(p: &Parsed, fl: PFlags, rer: Rer) -> Result<Prog, String> {
    let c = Compiler { fl, names: &p.names };
    Ok(Prog { root: c.node(&p.ast, rer)?, ngroups: p.ngroups, names: p.names.clone(), unicode: fl.u })
}

/// Evaluate a class expression to its value (for C12): code points + strings, under the given flags.
pub fn eval_class(n: &ClassNode, fl: PFlags, rer: Rer) -> Result<ClassVal, String> {
    let c = Compiler { fl, names: &[] };
    c.eval(n, rer)
}

// ---------------------------------------------------------------------------------------------

#[derive(Clone, Debug, PartialEq)]
pub struct St {
    pub e: usize,
    pub caps: Vec<Option<(usize, usize)>>, // index 0 unused
}

pub struct Exec<'a> {
    pub input: &'a [u32],
    pub unicode: bool,
    pub steps: Cell<u64>,
    pub limit: u64,
    pub aborted: Cell<bool>,
    /// recursion depth of RepeatMatcher (the reference declines - never judges - beyond MAX_DEPTH)
    pub depth: Cell<u32>,
}

pub const MAX_DEPTH: u32 = 6000;

type K<'k> = &'k dyn Fn(&St) -> Option<St>;

impl<'a> Exec<'a> {
    fn tick(&self) -> bool {
        let s = self.steps.get() + 1;
        self.steps.set(s);
        if s > self.limit {
            self.aborted.set(true);
            return false;
        }
        true
    }

    fn canon(&self, c: u32, icase: bool) -> u32 {
        if icase {
            udata::canon(c, self.unicode)
        } else {
            c
        }
    }

    fn set_matches(&self, cs: &CharSet, ch: u32) -> bool {
        let cc = self.canon(ch, cs.icase);
        cs.set.contains(cc) != cs.invert
    }

    fn char_step(&self, cs: &CharSet, x: &St, fwd: bool) -> Option<St> {
        let e = x.e;
        let f = if fwd {
            if e + 1 > self.input.len() {
                return None;
            }
            e + 1
        } else {
            if e == 0 {
                return None;
            }
            e - 1
        };
        let ch = self.input[e.min(f)];
        if !self.set_matches(cs, ch) {
            return None;
        }
        Some(St { e: f, caps: x.caps.clone() })
    }

    fn seq(&self, v: &[Node], x: &St, fwd: bool, k: K) -> Option<St> {
        if v.is_empty() {
            return k(x);
        }
        if fwd {
            self.m(&v[0], x, fwd, &|y| self.seq(&v[1..], y, fwd, k))
        } else {
            let n = v.len();
            self.m(&v[n - 1], x, fwd, &|y| self.seq(&v[..n - 1], y, fwd, k))
        }
    }

    fn chars_seq(&self, v: &[CharSet], x: &St, fwd: bool, k: K) -> Option<St> {
        // a string of single-character matchers in the current direction
        let mut cur = x.clone();
        let order: Vec<&CharSet> = if fwd { v.iter().collect() } else { v.iter().rev().collect() };
        for cs in order {
            cur = self.char_step(cs, &cur, fwd)?;
        }
        k(&cur)
    }

    #[allow(clippy::too_many_arguments)]
    fn repeat(&self, body: &Node, min: u64, max: Option<u64>, greedy: bool, x: &St, fwd: bool, pi: usize, pc: usize, k: K) -> Option<St> {
        if !self.tick() {
            return None;
        }
        if max == Some(0) {
            return k(x);
        }
        if self.depth.get() > MAX_DEPTH {
            self.aborted.set(true);
            return None;
        }
        self.depth.set(self.depth.get() + 1);
        let r = self.repeat_inner(body, min, max, greedy, x, fwd, pi, pc, k);
        self.depth.set(self.depth.get() - 1);
        r
    }

    #[allow(clippy::too_many_arguments)]
    fn repeat_inner(&self, body: &Node, min: u64, max: Option<u64>, greedy: bool, x: &St, fwd: bool, pi: usize, pc: usize, k: K) -> Option<St> {
        let d = |y: &St| -> Option<St> {
            if min == 0 && y.e == x.e {
                return None;
            }
            let min2 = if min == 0 { 0 } else { min - 1 };
            let max2 = max.map(|m| m - 1);
            self.repeat(body, min2, max2, greedy, y, fwd, pi, pc, k)
        };
        let mut xr = x.clone();
        for g in (pi + 1)..=(pi + pc) {
            if g < xr.caps.len() {
                xr.caps[g] = None;
            }
        }
        if min != 0 {
            return self.m(body, &xr, fwd, &d);
        }
        if !greedy {
            if let Some(z) = k(x) {
                return Some(z);
            }
            if self.aborted.get() {
                return None;
            }
            return self.m(body, &xr, fwd, &d);
        }
        if let Some(z) = self.m(body, &xr, fwd, &d) {
            return Some(z);
        }
        if self.aborted.get() {
            return None;
        }
        k(x)
    }

    fn is_word(&self, word: &CpSet, e: isize) -> bool {
        if e < 0 || e as usize >= self.input.len() {
            return false;
        }
        word.contains(self.input[e as usize])
    }

    fn is_lt(c: u32) -> bool {
        matches!(c, 0x0A | 0x0D | 0x2028 | 0x2029)
    }

    pub fn m(&self, n: &Node, x: &St, fwd: bool, k: K) -> Option<St> {
        if !self.tick() {
            return None;
        }
        match n {
            Node::Empty => k(x),
            Node::Set(cs) => {
                let y = self.char_step(cs, x, fwd)?;
                k(&y)
            }
            Node::StrClass { strings, singles, has_empty } => {
                for s in strings {
                    if let Some(z) = self.chars_seq(s, x, fwd, k) {
                        return Some(z);
                    }
                    if self.aborted.get() {
                        return None;
                    }
                }
                if let Some(y) = self.char_step(singles, x, fwd) {
                    if let Some(z) = k(&y) {
                        return Some(z);
                    }
                    if self.aborted.get() {
                        return None;
                    }
                }
                if *has_empty {
                    return k(x);
                }
                None
            }
            Node::Seq(v) => self.seq(v, x, fwd, k),
            Node::Alt(v) => {
                for a in v {
                    if let Some(z) = self.m(a, x, fwd, k) {
                        return Some(z);
                    }
                    if self.aborted.get() {
                        return None;
                    }
                }
                None
            }
            Node::Group { idx, body } => self.m(body, x, fwd, &|y| {
                let (s, e) = if fwd { (x.e, y.e) } else { (y.e, x.e) };
                let mut z = y.clone();
                if *idx < z.caps.len() {
                    z.caps[*idx] = Some((s, e));
                }
                k(&z)
            }),
            Node::Look { behind, neg, body } => {
                let r = self.m(body, x, !*behind, &|y| Some(y.clone()));
                if self.aborted.get() {
                    return None;
                }
                if *neg {
                    if r.is_some() {
                        return None;
                    }
                    k(x)
                } else {
                    let y = r?;
                    let z = St { e: x.e, caps: y.caps };
                    k(&z)
                }
            }
            Node::Repeat { body, min, max, greedy, paren_index, paren_count } => self.repeat(body, *min, *max, *greedy, x, fwd, *paren_index, *paren_count, k),
            Node::BackRef { groups, icase } => {
                let mut r = None;
                for g in groups {
                    if let Some(Some(c)) = x.caps.get(*g) {
                        r = Some(*c);
                    }
                }
                let (rs, re) = match r {
                    None => return k(x),
                    Some(c) => c,
                };
                let len = re - rs;
                let e = x.e;
                let f = if fwd {
                    if e + len > self.input.len() {
                        return None;
                    }
                    e + len
                } else {
                    if len > e {
                        return None;
                    }
                    e - len
                };
                let g = e.min(f);
                for i in 0..len {
                    if self.canon(self.input[rs + i], *icase) != self.canon(self.input[g + i], *icase) {
                        return None;
                    }
                }
                k(&St { e: f, caps: x.caps.clone() })
            }
            Node::Bol { multiline } => {
                let e = x.e;
                if e == 0 || (*multiline && Self::is_lt(self.input[e - 1])) {
                    k(x)
                } else {
                    None
                }
            }
            Node::Eol { multiline } => {
                let e = x.e;
                if e == self.input.len() || (*multiline && Self::is_lt(self.input[e])) {
                    k(x)
                } else {
                    None
                }
            }
            Node::WordB { neg, word } => {
                let a = self.is_word(word, x.e as isize - 1);
                let b = self.is_word(word, x.e as isize);
                if (a != b) != *neg {
                    k(x)
                } else {
                    None
                }
            }
        }
    }
}

#[derive(Clone, Debug, PartialEq)]
pub enum ExecResult {
    Match { start: usize, end: usize, caps: Vec<Option<(usize, usize)>> },
    NoMatch,
    /// the reference itself exceeded its step cap: no verdict
    Aborted,
}

/// RegExpBuiltinExec's scan from `start` (code point indices). Returns the result and the number of steps taken.
pub fn exec(prog: &Prog, input: &[u32], start: usize, limit: u64) -> (ExecResult, u64) {
    let ex = Exec { input, unicode: prog.unicode, steps: Cell::new(0), limit, aborted: Cell::new(false), depth: Cell::new(0) };
    let mut last = start;
    while last <= input.len() {
        let x = St { e: last, caps: vec![None; prog.ngroups + 1] };
        let r = ex.m(&prog.root, &x, true, &|y| Some(y.clone()));
        if ex.aborted.get() {
            return (ExecResult::Aborted, ex.steps.get());
        }
        if let Some(y) = r {
            return (ExecResult::Match { start: last, end: y.e, caps: y.caps[1..].to_vec() }, ex.steps.get());
        }
        last += 1;
    }
    (ExecResult::NoMatch, ex.steps.get())
}
