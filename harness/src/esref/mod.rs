//! The ECMAScript reference model (see DESIGN.md 2.3 and Appendix A).

pub mod cpset;
pub mod exec;
pub mod parse;
pub mod selftest;
pub mod udata;

use crate::pat::{Fl, Mode};
pub use exec::{ExecResult, Prog, Rer};
pub use parse::{PFlags, Parsed, Quirks};

pub fn pflags(fl: Fl) -> PFlags {
    PFlags { u: fl.mode != Mode::Legacy, v: fl.mode == Mode::V }
}

/// Accept/reject per the ES grammar + early errors.
pub fn accepts(p: &[u32], fl: Fl) -> Result<(), String> {
    parse::parse(p, pflags(fl)).map(|_| ())
}

pub struct Ref {
    pub prog: Prog,
    pub ngroups: usize,
    pub names: Vec<Option<String>>,
}

pub enum RefErr {
    /// the pattern is not in the language
    Syntax(String),
    /// valid, but the reference cannot evaluate it (no independent data): no verdict
    Decline(String),
}

pub fn compile(p: &[u32], fl: Fl) -> Result<Ref, RefErr> {
    compile_q(p, fl, Quirks::default())
}

pub fn compile_q(p: &[u32], fl: Fl, q: Quirks) -> Result<Ref, RefErr> {
    let pf = pflags(fl);
    let parsed = parse::parse_q(p, pf, q).map_err(RefErr::Syntax)?;
    let prog = exec::compile(&parsed, pf, Rer { i: fl.i, m: fl.m, s: fl.s }).map_err(RefErr::Decline)?;
    Ok(Ref { ngroups: parsed.ngroups, names: parsed.names.clone(), prog })
}

/// Result in byte offsets of `hay`.
#[derive(Clone, Debug, PartialEq)]
pub enum Found {
    Match(crate::run::M),
    NoMatch,
    Aborted,
}

impl Ref {
    /// First match at or after byte offset `start` (must be a char boundary or >= len).
    pub fn find(&self, hay: &str, start: usize, limit: u64) -> (Found, u64) {
        let cps: Vec<u32> = hay.chars().map(|c| c as u32).collect();
        let mut offs: Vec<usize> = hay.char_indices().map(|(i, _)| i).collect();
        offs.push(hay.len());
        if start > hay.len() {
            return (Found::NoMatch, 0);
        }
        let s_cp = match offs.binary_search(&start) {
            Ok(i) => i,
            Err(_) => return (Found::NoMatch, 0),
        };
        let (r, steps) = exec::exec(&self.prog, &cps, s_cp, limit);
        let f = match r {
            ExecResult::Aborted => Found::Aborted,
            ExecResult::NoMatch => Found::NoMatch,
            ExecResult::Match { start, end, caps } => Found::Match(crate::run::M {
                s: offs[start],
                e: offs[end],
                caps: caps.iter().map(|c| c.map(|(a, b)| (offs[a], offs[b]))).collect(),
            }),
        };
        (f, steps)
    }
}
