//! Sorted, disjoint, non-adjacent code point ranges. Deliberately naive.

#[derive(Clone, Debug, PartialEq, Eq, Default)]
pub struct CpSet {
    pub r: Vec<(u32, u32)>,
}

pub const MAX_CP: u32 = 0x10FFFF;

impl CpSet {
    pub fn new() -> CpSet {
        CpSet { r: vec![] }
    }
    pub fn all() -> CpSet {
        CpSet { r: vec![(0, MAX_CP)] }
    }
    pub fn single(c: u32) -> CpSet {
        CpSet { r: vec![(c, c)] }
    }
    pub fn from_ranges(mut v: Vec<(u32, u32)>) -> CpSet {
        v.retain(|(a, b)| a <= b);
        v.sort();
        let mut out: Vec<(u32, u32)> = vec![];
        for (a, b) in v {
            if let Some(last) = out.last_mut() {
                if a <= last.1.saturating_add(1) {
                    if b > last.1 {
                        last.1 = b;
                    }
                    continue;
                }
            }
            out.push((a, b));
        }
        CpSet { r: out }
    }
    pub fn is_empty(&self) -> bool {
        self.r.is_empty()
    }
    pub fn contains(&self, c: u32) -> bool {
        let mut lo = 0usize;
        let mut hi = self.r.len();
        while lo < hi {
            let mid = (lo + hi) / 2;
            let (a, b) = self.r[mid];
            if c < a {
                hi = mid;
            } else if c > b {
                lo = mid + 1;
            } else {
                return true;
            }
        }
        false
    }
    pub fn add(&mut self, a: u32, b: u32) {
        let mut v = std::mem::take(&mut self.r);
        v.push((a, b));
        *self = CpSet::from_ranges(v);
    }
    pub fn union(&self, o: &CpSet) -> CpSet {
        let mut v = self.r.clone();
        v.extend_from_slice(&o.r);
        CpSet::from_ranges(v)
    }
    pub fn complement(&self) -> CpSet {
        let mut out = vec![];
        let mut next = 0u32;
        for (a, b) in &self.r {
            if *a > next {
                out.push((next, a - 1));
            }
            next = b + 1;
        }
        if next <= MAX_CP {
            out.push((next, MAX_CP));
        }
        CpSet { r: out }
    }
    pub fn intersect(&self, o: &CpSet) -> CpSet {
        let mut out = vec![];
        let (mut i, mut j) = (0, 0);
        while i < self.r.len() && j < o.r.len() {
            let (a1, b1) = self.r[i];
            let (a2, b2) = o.r[j];
            let lo = a1.max(a2);
            let hi = b1.min(b2);
            if lo <= hi {
                out.push((lo, hi));
            }
            if b1 < b2 {
                i += 1
            } else {
                j += 1
            }
        }
        CpSet { r: out }
    }
    pub fn subtract(&self, o: &CpSet) -> CpSet {
        self.intersect(&o.complement())
    }
    pub fn count(&self) -> u64 {
        self.r.iter().map(|(a, b)| (*b - *a) as u64 + 1).sum()
    }
    pub fn iter(&self) -> impl Iterator<Item = u32> + '_ {
        self.r.iter().flat_map(|(a, b)| *a..=*b)
    }
    pub fn parse_hex_ranges(s: &str) -> CpSet {
        let mut v = vec![];
        for part in s.split(',') {
            let part = part.trim();
            if part.is_empty() {
                continue;
            }
            let mut it = part.split('-');
            let a = u32::from_str_radix(it.next().unwrap(), 16).unwrap_or(0);
            let b = it.next().map(|x| u32::from_str_radix(x, 16).unwrap_or(a)).unwrap_or(a);
            v.push((a, b));
        }
        CpSet::from_ranges(v)
    }
}
