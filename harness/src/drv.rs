//! Driver: sharded proptest runs over choice vectors, counters, shrinking, replay files, evidence.

use crate::src::{fnv, splitmix, Src};
use proptest::collection::vec;
use proptest::test_runner::{Config, RngAlgorithm, TestCaseError, TestError, TestRng, TestRunner};
use serde_json::{json, Map, Value};
use std::collections::{BTreeMap, HashSet};
use std::sync::atomic::{AtomicBool, Ordering};
use std::sync::Mutex;
use std::time::Instant;

#[derive(Clone, Debug, Default, PartialEq)]
pub struct Case {
    pub pat: Vec<u32>,
    pub flags: String,
    pub hay: String,
    pub hay16: Vec<u16>,
    pub start: usize,
    pub x: Value,
}

impl Case {
    pub fn to_json(&self) -> Value {
        let mut m = Map::new();
        m.insert("pattern".into(), json!(self.pat));
        m.insert("pattern_text".into(), json!(crate::pat::show(&self.pat)));
        m.insert("flags".into(), json!(self.flags));
        m.insert("haystack".into(), json!(self.hay.chars().map(|c| c as u32).collect::<Vec<_>>()));
        m.insert("haystack_text".into(), json!(crate::pat::show_str(&self.hay)));
        if !self.hay16.is_empty() {
            m.insert("units16".into(), json!(self.hay16));
        }
        m.insert("start".into(), json!(self.start));
        if !self.x.is_null() {
            m.insert("x".into(), self.x.clone());
        }
        Value::Object(m)
    }
    pub fn from_json(v: &Value) -> Option<Case> {
        let arr_u32 = |v: &Value| -> Option<Vec<u32>> {
            v.as_array().map(|a| a.iter().filter_map(|x| x.as_u64().map(|n| n as u32)).collect())
        };
        let pat = match v.get("pattern") {
            Some(p) if p.is_array() => arr_u32(p)?,
            Some(p) if p.is_string() => p.as_str()?.chars().map(|c| c as u32).collect(),
            _ => vec![],
        };
        let hay = match v.get("haystack") {
            Some(p) if p.is_array() => arr_u32(p)?.iter().filter_map(|c| char::from_u32(*c)).collect(),
            Some(p) if p.is_string() => p.as_str()?.to_string(),
            _ => String::new(),
        };
        let hay16 = v.get("units16").and_then(arr_u32).map(|v| v.iter().map(|x| *x as u16).collect()).unwrap_or_default();
        Some(Case {
            pat,
            flags: v.get("flags").and_then(|f| f.as_str()).unwrap_or("").to_string(),
            hay,
            hay16,
            start: v.get("start").and_then(|s| s.as_u64()).unwrap_or(0) as usize,
            x: v.get("x").cloned().unwrap_or(Value::Null),
        })
    }
    pub fn show(&self) -> String {
        let mut pt = crate::pat::show(&self.pat);
        if pt.chars().count() > 160 {
            pt = format!("{}...({} code points)", pt.chars().take(120).collect::<String>(), self.pat.len());
        }
        let mut s = format!(
            "/{}/{} on \"{}\" from {}",
            pt,
            self.flags,
            crate::pat::show_str(&self.hay),
            self.start
        );
        if !self.hay16.is_empty() {
            s.push_str(&format!(" u16={:04X?}", self.hay16));
        }
        if !self.x.is_null() {
            s.push_str(&format!(" x={}", self.x));
        }
        s
    }
    pub fn hash(&self) -> u64 {
        fnv(self.to_json().to_string().as_bytes())
    }
}

#[derive(Debug, Clone)]
pub enum Verdict {
    Pass { nontrivial: bool },
    Skip(&'static str),
    Known(String),
    Fail(String),
}

/// Per-thread scratch: class counters.
#[derive(Default)]
pub struct Local {
    pub classes: BTreeMap<String, u64>,
    pub counting: bool,
}

impl Local {
    pub fn class(&mut self, name: &str) {
        if self.counting {
            *self.classes.entry(name.to_string()).or_insert(0) += 1;
        }
    }
    pub fn add(&mut self, name: &str, n: u64) {
        if self.counting {
            *self.classes.entry(name.to_string()).or_insert(0) += n;
        }
    }
    pub fn max(&mut self, name: &str, n: u64) {
        if self.counting {
            let e = self.classes.entry(name.to_string()).or_insert(0);
            if n > *e {
                *e = n
            }
        }
    }
}

pub struct Variant {
    pub name: &'static str,
    pub choice_len: usize,
    pub gen: fn(&mut Src, Tier) -> Case,
    pub check: fn(&Case, &mut Local) -> Verdict,
}

#[derive(Clone, Copy, PartialEq, Eq, Debug)]
pub enum Tier {
    Quick,
    Thorough,
}

pub struct Violation {
    pub variant: String,
    pub case: Value,
    pub show: String,
    pub msg: String,
    pub path: String,
}

#[derive(Default)]
pub struct Agg {
    pub evaluations: u64,
    pub nontrivial: HashSet<u64>,
    pub classes: BTreeMap<String, u64>,
    pub samples: Vec<Value>,
    pub skipped: BTreeMap<String, u64>,
    pub known: BTreeMap<String, u64>,
    pub violations: Vec<Violation>,
    pub variants: Vec<Value>,
    pub notes: Vec<String>,
    /// reasons why (part of) the run could not reach a verdict: exit 2 unless a violation was found
    pub inconclusive: Vec<String>,
    pub exhaustive: bool,
    pub programs: u64,
}

pub struct Ctx {
    pub prop: String,
    pub tier: Tier,
    pub seed: u64,
    pub threads: usize,
    pub t0: Instant,
    pub agg: Mutex<Agg>,
    pub verif_dir: String,
    pub strict: bool,
}

pub fn json_string(s: &str) -> String {
    serde_json::Value::String(s.to_string()).to_string()
}

pub fn verif_dir() -> String {
    std::env::var("VERIF_DIR").unwrap_or_else(|_| "/verif".to_string())
}

impl Ctx {
    pub fn new(prop: &str, tier: Tier, seed: u64) -> Ctx {
        let threads = std::env::var("VERIF_THREADS").ok().and_then(|s| s.parse().ok()).unwrap_or(16);
        Ctx {
            prop: prop.to_string(),
            tier,
            seed,
            threads,
            t0: Instant::now(),
            agg: Mutex::new(Agg::default()),
            verif_dir: verif_dir(),
            strict: false,
        }
    }

    pub fn scale(&self, quick: usize, thorough: usize) -> usize {
        let n = match self.tier {
            Tier::Quick => quick,
            Tier::Thorough => thorough,
        };
        // optional global multiplier for experiments
        match std::env::var("VERIF_SCALE").ok().and_then(|s| s.parse::<f64>().ok()) {
            Some(f) => ((n as f64) * f).max(1.0) as usize,
            None => n,
        }
    }

    pub fn add_violation(&self, variant: &str, case: &Case, msg: &str) {
        let mut agg = self.agg.lock().unwrap();
        let cj = case.to_json();
        // dedupe on identical case
        if agg.violations.iter().any(|v| v.case == cj && v.variant == variant) {
            return;
        }
        let dir = format!("{}/violations/{}", self.verif_dir, self.prop);
        let _ = std::fs::create_dir_all(&dir);
        let path = format!("{}/{}-{:016x}.json", dir, variant, case.hash());
        let doc = json!({
            "property": self.prop,
            "variant": variant,
            "case": cj,
            "message": msg,
            "seed": self.seed,
        });
        let _ = std::fs::write(&path, serde_json::to_string_pretty(&doc).unwrap());
        agg.violations.push(Violation { variant: variant.to_string(), case: cj, show: case.show(), msg: msg.to_string(), path });
    }

    pub fn note(&self, s: String) {
        self.agg.lock().unwrap().notes.push(s);
    }

    /// Run one explicit case (replay / regression input) through a variant.
    pub fn run_case(&self, v: &Variant, case: &Case, origin: &str) -> Verdict {
        let mut l = Local { counting: true, ..Default::default() };
        let verdict = (v.check)(case, &mut l);
        let mut agg = self.agg.lock().unwrap();
        agg.evaluations += 1;
        for (k, n) in l.classes {
            *agg.classes.entry(k).or_insert(0) += n;
        }
        match &verdict {
            Verdict::Pass { nontrivial } => {
                if *nontrivial {
                    agg.nontrivial.insert(case.hash());
                }
            }
            Verdict::Skip(r) => *agg.skipped.entry(r.to_string()).or_insert(0) += 1,
            Verdict::Known(k) => *agg.known.entry(k.clone()).or_insert(0) += 1,
            Verdict::Fail(msg) => {
                drop(agg);
                self.add_violation_at(v.name, case, msg, origin);
            }
        }
        verdict
    }

    fn add_violation_at(&self, variant: &str, case: &Case, msg: &str, origin: &str) {
        if origin.is_empty() {
            self.add_violation(variant, case, msg)
        } else {
            let mut agg = self.agg.lock().unwrap();
            agg.violations.push(Violation {
                variant: variant.to_string(),
                case: case.to_json(),
                show: case.show(),
                msg: msg.to_string(),
                path: origin.to_string(),
            });
        }
    }

    /// Random search: `cases` generated cases over `threads` shards, each a pure function of (seed, variant, shard).
    pub fn run_variant(&self, v: &Variant, cases: usize) {
        let t0 = Instant::now();
        let shards = self.threads.max(1);
        let per = cases.div_ceil(shards);
        let vhash = fnv(v.name.as_bytes());
        let results: Vec<ShardResult> = std::thread::scope(|sc| {
            let handles: Vec<_> = (0..shards)
                .map(|sh| {
                    let seed = splitmix(self.seed ^ vhash.rotate_left(17) ^ ((sh as u64) << 48) ^ fnv(self.prop.as_bytes()));
                    std::thread::Builder::new()
                        .stack_size(64 << 20)
                        .spawn_scoped(sc, move || run_shard(v, per, seed, self.tier, sh))
                        .unwrap()
                })
                .collect();
            handles.into_iter().map(|h| h.join().expect("shard thread panicked")).collect()
        });
        self.merge(v, results, t0);
    }

    /// Complete enumeration: every case of `cases` is checked (sharded); no shrinking (the slice is small by construction).
    pub fn run_list(&self, v: &Variant, cases: &[Case]) {
        let t0 = Instant::now();
        let shards = self.threads.max(1);
        let results: Vec<ShardResult> = std::thread::scope(|sc| {
            let handles: Vec<_> = (0..shards)
                .map(|sh| {
                    std::thread::Builder::new()
                        .stack_size(64 << 20)
                        .spawn_scoped(sc, move || {
                            let mut res = ShardResult::empty();
                            let mut local = Local { counting: true, ..Default::default() };
                            let journal = journal_file(v, sh);
                            for (i, case) in cases.iter().enumerate() {
                                if i % shards != sh {
                                    continue;
                                }
                                if res.failures.len() >= 3 {
                                    break;
                                }
                                if let Some(j) = &journal {
                                    // enumerated cases are journalled whole (the list may be a filtered or derived one)
                                    write_journal_case(j, case);
                                }
                                res.evaluations += 1;
                                match (v.check)(case, &mut local) {
                                    Verdict::Pass { nontrivial } => {
                                        if nontrivial && res.nontrivial.insert(case.hash()) && res.samples.len() < 2 {
                                            res.samples.push(json!({"text": case.show()}));
                                        }
                                    }
                                    Verdict::Skip(r) => *res.skipped.entry(r.to_string()).or_insert(0) += 1,
                                    Verdict::Known(k) => *res.known.entry(k).or_insert(0) += 1,
                                    Verdict::Fail(msg) => {
                                        if res.failures.len() < 3 {
                                            res.failures.push((case.clone(), msg));
                                        }
                                    }
                                }
                            }
                            res.classes = local.classes;
                            res
                        })
                        .unwrap()
                })
                .collect();
            handles.into_iter().map(|h| h.join().expect("shard thread panicked")).collect()
        });
        self.merge(v, results, t0);
    }

    fn merge(&self, v: &Variant, results: Vec<ShardResult>, t0: Instant) {
        let mut evals = 0;
        let mut nontriv = 0usize;
        {
            let mut agg = self.agg.lock().unwrap();
            for r in &results {
                evals += r.evaluations;
                agg.evaluations += r.evaluations;
                for h in &r.nontrivial {
                    if agg.nontrivial.insert(*h) {
                        nontriv += 1;
                    }
                }
                for (k, n) in &r.classes {
                    let key = format!("{}.{}", v.name, k);
                    if k.starts_with("max_") {
                        let e = agg.classes.entry(key).or_insert(0);
                        *e = (*e).max(*n);
                    } else {
                        *agg.classes.entry(key).or_insert(0) += n;
                    }
                }
                for (k, n) in &r.skipped {
                    *agg.skipped.entry(format!("{}.{}", v.name, k)).or_insert(0) += n;
                }
                for (k, n) in &r.known {
                    *agg.known.entry(k.clone()).or_insert(0) += n;
                }
            }
            let mut taken = 0;
            for r in &results {
                for s in &r.samples {
                    if taken < 4 {
                        agg.samples.push(json!({"variant": v.name, "case": s}));
                        taken += 1;
                    }
                }
            }
            agg.variants.push(json!({
                "variant": v.name,
                "cases": evals,
                "new_distinct_nontrivial": nontriv,
                "wall_s": t0.elapsed().as_secs_f64(),
            }));
        }
        for r in results {
            if let Some((case, msg)) = r.failure {
                self.add_violation(v.name, &case, &msg);
            }
            for (case, msg) in r.failures {
                self.add_violation(v.name, &case, &msg);
            }
        }
    }

    /// Run the same property in another build of this harness (different cargo profile / regress features)
    /// and merge its summary; VIOLATION lines of the child are relayed.
    pub fn run_other_build(&self, label: &str, rel_path: &str) -> bool {
        let exe = format!("{}/harness/{}", self.verif_dir, rel_path);
        if !std::path::Path::new(&exe).exists() {
            self.note(format!("build '{}' not present ({}): skipped", label, exe));
            return false;
        }
        let out = std::process::Command::new(&exe)
            .arg(&self.prop)
            .arg("--tier")
            .arg(if self.tier == Tier::Quick { "quick" } else { "thorough" })
            .arg("--seed")
            .arg(self.seed.to_string())
            .env("VERIF_SUMMARY_ONLY", label)
            .env_remove("VERIF_CHILD")
            .output();
        match out {
            Err(e) => {
                self.note(format!("build '{}' could not be started: {}", label, e));
                false
            }
            Ok(o) => {
                let txt = String::from_utf8_lossy(&o.stdout).to_string();
                let mut agg = self.agg.lock().unwrap();
                let mut got = false;
                for line in txt.lines() {
                    if let Some(rest) = line.strip_prefix("SUMMARY ") {
                        if let Ok(v) = serde_json::from_str::<Value>(rest) {
                            got = true;
                            agg.evaluations += v["evaluations"].as_u64().unwrap_or(0);
                            agg.variants.push(json!({"build": label, "summary": v}));
                        }
                    } else if line.starts_with("VIOLATION ") {
                        let path = line.split("replay=").nth(1).unwrap_or("").to_string();
                        agg.violations.push(Violation { variant: format!("build:{}", label), case: Value::Null, show: format!("(in build '{}')", label), msg: "see child output".into(), path });
                    } else if line.starts_with("  violation") {
                        println!("[{}] {}", label, line);
                    }
                }
                if !got {
                    // the other build neither finished nor pinned a failing case (e.g. an abort its supervisor could
                    // not attribute to a single case): no verdict for that build
                    let tail: String = txt.lines().rev().take(3).collect::<Vec<_>>().join(" | ");
                    agg.inconclusive.push(format!("build '{}' produced no summary (status {:?}): {}", label, o.status.code(), tail));
                }
                got
            }
        }
    }

    /// Finish: run nothing more; print lines, write evidence, return the exit code.
    pub fn finish(&self, level: &str, rule: &str, assumptions: &[&str]) -> i32 {
        let agg = self.agg.lock().unwrap();
        let mut cov = Map::new();
        cov.insert("evaluations".into(), json!(agg.evaluations));
        cov.insert("distinct_nontrivial".into(), json!(agg.nontrivial.len()));
        cov.insert("rule".into(), json!(rule));
        let mut samples = agg.samples.clone();
        samples.truncate(24);
        cov.insert("samples".into(), Value::Array(samples));
        cov.insert("classes".into(), json!(agg.classes));
        cov.insert("skipped".into(), json!(agg.skipped));
        cov.insert("excluded_known".into(), json!(agg.known));
        cov.insert("variants".into(), Value::Array(agg.variants.clone()));
        cov.insert("exhaustive".into(), json!(agg.exhaustive));
        if agg.programs > 0 || level == "translation_validation" {
            cov.insert("programs".into(), json!(agg.programs));
            cov.insert("disagreements_checked".into(), json!(agg.violations.len()));
        }
        if !agg.notes.is_empty() {
            cov.insert("notes".into(), json!(agg.notes));
        }
        let ev = json!({
            "property_id": self.prop,
            "tier": match self.tier { Tier::Quick => "quick", Tier::Thorough => "thorough" },
            "seed": self.seed,
            "level": level,
            "coverage": Value::Object(cov),
            "assumptions": assumptions,
            "wall_s": self.t0.elapsed().as_secs_f64(),
            "violations": agg.violations.len(),
        });
        if let Ok(label) = std::env::var("VERIF_SUMMARY_ONLY") {
            println!(
                "SUMMARY {}",
                json!({"build": label, "evaluations": agg.evaluations, "distinct_nontrivial": agg.nontrivial.len(), "violations": agg.violations.len(),
                       "skipped": agg.skipped, "wall_s": self.t0.elapsed().as_secs_f64()})
            );
        } else {
            let dir = format!("{}/evidence", self.verif_dir);
            let _ = std::fs::create_dir_all(&dir);
            let path = format!("{}/{}.json", dir, self.prop);
            std::fs::write(&path, serde_json::to_string_pretty(&ev).unwrap()).expect("cannot write evidence");
        }
        println!(
            "{} tier={:?} seed={} evaluations={} distinct_nontrivial={} skipped={:?} known={:?} wall={:.1}s",
            self.prop,
            self.tier,
            self.seed,
            agg.evaluations,
            agg.nontrivial.len(),
            agg.skipped,
            agg.known,
            self.t0.elapsed().as_secs_f64()
        );
        for v in agg.violations.iter().take(10) {
            println!("  violation[{}]: {} :: {}", v.variant, v.show, v.msg);
            println!("VIOLATION property={} replay={}", self.prop, v.path);
        }
        if !agg.violations.is_empty() {
            1
        } else if !agg.inconclusive.is_empty() {
            for r in &agg.inconclusive {
                println!("INCONCLUSIVE property={} reason={}", self.prop, r);
            }
            2
        } else {
            0
        }
    }
}

pub struct ShardResult {
    pub evaluations: u64,
    pub nontrivial: HashSet<u64>,
    pub classes: BTreeMap<String, u64>,
    pub skipped: BTreeMap<String, u64>,
    pub known: BTreeMap<String, u64>,
    pub samples: Vec<Value>,
    pub failure: Option<(Case, String)>,
    pub failures: Vec<(Case, String)>,
}

impl ShardResult {
    pub fn empty() -> ShardResult {
        ShardResult {
            evaluations: 0,
            nontrivial: HashSet::new(),
            classes: BTreeMap::new(),
            skipped: BTreeMap::new(),
            known: BTreeMap::new(),
            samples: vec![],
            failure: None,
            failures: vec![],
        }
    }
}

/// In journal mode (after a crash of the first attempt) every case's choice vector is written to a
/// per-shard file before it is executed, so the supervisor can find the case that killed the process.
fn journal_file(v: &Variant, shard: usize) -> Option<std::fs::File> {
    let dir = std::env::var("VERIF_JOURNAL").ok()?;
    std::fs::OpenOptions::new().create(true).write(true).truncate(true).open(format!("{}/{}@{}.bin", dir, v.name, shard)).ok()
}

pub fn write_journal(f: &std::fs::File, choices: &[u32]) {
    use std::os::unix::fs::FileExt;
    let mut buf = Vec::with_capacity(4 + choices.len() * 4);
    buf.extend_from_slice(&(choices.len() as u32).to_le_bytes());
    for c in choices {
        buf.extend_from_slice(&c.to_le_bytes());
    }
    let _ = f.write_all_at(&buf, 0);
}

/// A whole case (enumerated variants): marker 0xFFFFFFFF, byte length, JSON.
pub fn write_journal_case(f: &std::fs::File, case: &Case) {
    use std::os::unix::fs::FileExt;
    let js = case.to_json().to_string().into_bytes();
    let mut buf = Vec::with_capacity(8 + js.len());
    buf.extend_from_slice(&u32::MAX.to_le_bytes());
    buf.extend_from_slice(&(js.len() as u32).to_le_bytes());
    buf.extend_from_slice(&js);
    let _ = f.write_all_at(&buf, 0);
}

pub fn read_journal_case(path: &str) -> Option<Case> {
    let b = std::fs::read(path).ok()?;
    if b.len() < 8 || u32::from_le_bytes([b[0], b[1], b[2], b[3]]) != u32::MAX {
        return None;
    }
    let n = u32::from_le_bytes([b[4], b[5], b[6], b[7]]) as usize;
    if b.len() < 8 + n {
        return None;
    }
    let v: Value = serde_json::from_slice(&b[8..8 + n]).ok()?;
    Case::from_json(&v)
}

pub fn read_journal(path: &str) -> Option<Vec<u32>> {
    let b = std::fs::read(path).ok()?;
    if b.len() < 4 {
        return None;
    }
    let n = u32::from_le_bytes([b[0], b[1], b[2], b[3]]) as usize;
    if n == u32::MAX as usize || b.len() < 4 + 4 * n {
        return None;
    }
    Some((0..n).map(|i| u32::from_le_bytes([b[4 + 4 * i], b[5 + 4 * i], b[6 + 4 * i], b[7 + 4 * i]])).collect())
}

fn run_shard(v: &Variant, cases: usize, seed: u64, tier: Tier, shard: usize) -> ShardResult {
    let journal = journal_file(v, shard);
    let mut res = ShardResult::empty();
    let mut config = Config::default();
    config.cases = cases as u32;
    config.failure_persistence = None;
    config.max_shrink_iters = 3000;
    // shrinking quality only: the wall clock never decides a verdict (ms)
    config.max_shrink_time = 45_000;
    config.source_file = None;
    config.verbose = 0;
    let mut sb = [0u8; 32];
    for i in 0..4 {
        sb[i * 8..i * 8 + 8].copy_from_slice(&splitmix(seed.wrapping_add(i as u64)).to_le_bytes());
    }
    let rng = TestRng::from_seed(RngAlgorithm::ChaCha, &sb);
    let mut runner = TestRunner::new_with_rng(config, rng);
    let failed = AtomicBool::new(false);
    let cell = std::cell::RefCell::new((&mut res, Local::default()));
    let outcome = runner.run(&vec(proptest::num::u32::ANY, 0..=v.choice_len), |choices| {
        if let Some(j) = &journal {
            write_journal(j, &choices);
        }
        let mut src = Src::new(&choices);
        let case = (v.gen)(&mut src, tier);
        let mut guard = cell.borrow_mut();
        let (res, local) = &mut *guard;
        let counting = !failed.load(Ordering::Relaxed);
        local.counting = counting;
        let verdict = (v.check)(&case, local);
        if counting {
            res.evaluations += 1;
        }
        match verdict {
            Verdict::Pass { nontrivial } => {
                if counting && nontrivial {
                    let h = case.hash();
                    if res.nontrivial.insert(h) && res.samples.len() < 2 {
                        res.samples.push(json!({"text": case.show(), "case": case.to_json()}));
                    }
                }
                Ok(())
            }
            Verdict::Skip(r) => {
                if counting {
                    *res.skipped.entry(r.to_string()).or_insert(0) += 1;
                }
                Ok(())
            }
            Verdict::Known(k) => {
                if counting {
                    *res.known.entry(k).or_insert(0) += 1;
                }
                Ok(())
            }
            Verdict::Fail(msg) => {
                failed.store(true, Ordering::Relaxed);
                Err(TestCaseError::fail(msg))
            }
        }
    });
    let (_, local) = cell.into_inner();
    let classes = local.classes;
    res.classes = classes;
    if let Err(TestError::Fail(_, choices)) = outcome {
        let mut src = Src::new(&choices);
        let case = (v.gen)(&mut src, tier);
        let mut l = Local::default();
        let msg = match (v.check)(&case, &mut l) {
            Verdict::Fail(m) => m,
            other => format!("(flaky: shrunk case re-ran as {:?})", other),
        };
        res.failure = Some((case, msg));
    } else if let Err(TestError::Abort(r)) = outcome {
        res.failure = Some((Case::default(), format!("proptest aborted: {}", r)));
    }
    res
}

/// Load regression inputs for a property: /verif/replays/<ID>/*.json
pub fn load_replays(prop: &str) -> Vec<(String, String, Case, Value)> {
    let dir = format!("{}/replays/{}", verif_dir(), prop);
    let mut out = vec![];
    let mut names: Vec<_> = match std::fs::read_dir(&dir) {
        Ok(rd) => rd.filter_map(|e| e.ok()).map(|e| e.path()).filter(|p| p.extension().map(|x| x == "json").unwrap_or(false)).collect(),
        Err(_) => return out,
    };
    names.sort();
    for p in names {
        if let Ok(txt) = std::fs::read_to_string(&p) {
            if let Ok(v) = serde_json::from_str::<Value>(&txt) {
                let docs: Vec<Value> = if let Some(a) = v.as_array() { a.clone() } else { vec![v] };
                for d in docs {
                    let variant = d.get("variant").and_then(|x| x.as_str()).unwrap_or("").to_string();
                    if let Some(c) = d.get("case").and_then(Case::from_json) {
                        out.push((p.to_string_lossy().to_string(), variant, c, d.clone()));
                    }
                }
            }
        }
    }
    out
}
