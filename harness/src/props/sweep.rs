//! Exhaustive sweeps over all 1,112,064 scalar values (shared by C10, C11, C12).

use crate::esref::cpset::CpSet;
use crate::esref::exec::{CharSet, Node};
use crate::esref::udata;
use crate::pat::Fl;
use std::sync::OnceLock;

pub fn all_scalars() -> &'static String {
    static S: OnceLock<String> = OnceLock::new();
    S.get_or_init(|| (0..=0x10FFFFu32).filter_map(char::from_u32).collect())
}

pub fn scalars() -> CpSet {
    CpSet::from_ranges(vec![(0, 0xD7FF), (0xE000, 0x10FFFF)])
}

/// The set of scalar values matched by a single-character pattern `atom`, observed by running
/// `(?:atom)+` over a haystack of all scalar values (each match is a run of consecutive members).
pub fn sweep_runs(atom: &[u32], fl: Fl, eng_pike: bool, no_opt: bool) -> Result<CpSet, String> {
    let mut p: Vec<u32> = "(?:".chars().map(|c| c as u32).collect();
    p.extend_from_slice(atom);
    p.extend(")+".chars().map(|c| c as u32));
    let re = crate::run::compile(&p, fl, no_opt)?;
    let h = all_scalars();
    let mut v: Vec<(u32, u32)> = vec![];
    let mut push = |m: &regress::Match| {
        let s = &h[m.range()];
        let a = s.chars().next().unwrap() as u32;
        let b = s.chars().next_back().unwrap() as u32;
        if a < 0xD800 && b > 0xDFFF {
            v.push((a, 0xD7FF));
            v.push((0xE000, b));
        } else {
            v.push((a, b));
        }
    };
    regress::verif::set_fuel(u64::MAX);
    if eng_pike {
        for m in regress::backends::find::<regress::backends::PikeVMExecutor>(&re, h, 0) {
            push(&m);
        }
    } else {
        for m in re.find_iter(h) {
            push(&m);
        }
    }
    Ok(CpSet::from_ranges(v))
}

/// The scalar values a compiled reference CharSet matches.
pub fn matching_set(cs: &CharSet, unicode: bool) -> CpSet {
    let mut e = cs.set.clone();
    if cs.icase {
        let mut add = vec![];
        let mut del = vec![];
        for (d, k) in udata::nonid_canon(unicode) {
            if cs.set.contains(*k) {
                add.push((*d, *d));
            } else {
                del.push((*d, *d));
            }
        }
        e = e.subtract(&CpSet::from_ranges(del)).union(&CpSet::from_ranges(add));
    }
    let e = e.intersect(&scalars());
    if cs.invert {
        scalars().subtract(&e)
    } else {
        e
    }
}

/// Expected set for a single-character pattern according to the reference model.
pub fn expected_set(atom: &[u32], fl: Fl) -> Result<CpSet, String> {
    let r = match crate::esref::compile(atom, fl) {
        Ok(r) => r,
        Err(crate::esref::RefErr::Syntax(e)) => return Err(format!("SYNTAX: {}", e)),
        Err(crate::esref::RefErr::Decline(e)) => return Err(format!("DECLINE: {}", e)),
    };
    fn find_set(n: &Node) -> Option<&CharSet> {
        match n {
            Node::Set(cs) => Some(cs),
            Node::Seq(v) if v.len() == 1 => find_set(&v[0]),
            _ => None,
        }
    }
    match find_set(&r.prog.root) {
        Some(cs) => Ok(matching_set(cs, fl.unicode())),
        None => Err("DECLINE: not a single-character pattern".into()),
    }
}

pub fn describe_diff(got: &CpSet, want: &CpSet) -> String {
    let extra = got.subtract(want);
    let missing = want.subtract(got);
    let f = |s: &CpSet| -> String {
        let mut v: Vec<String> = s.r.iter().take(4).map(|(a, b)| if a == b { format!("U+{:04X}", a) } else { format!("U+{:04X}-U+{:04X}", a, b) }).collect();
        if s.r.len() > 4 {
            v.push("...".into());
        }
        v.join(",")
    };
    format!("{} code points matched but not in the set [{}]; {} in the set but not matched [{}]", extra.count(), f(&extra), missing.count(), f(&missing))
}
