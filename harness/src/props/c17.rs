//! C17: replace / replace_all are splice-and-expand over the match sequence.

use super::common::*;
use crate::drv::*;
use crate::pat::*;
use crate::run::*;
use crate::src::Src;
use serde_json::json;
use std::panic::{catch_unwind, AssertUnwindSafe};

const TNAMES: &[&str] = &["n1", "n2", "n3", "x", "", "n1 ", "N1", "π"];

fn gen_template(src: &mut Src) -> String {
    let n = src.range(0, 8);
    let mut t = String::new();
    for _ in 0..n {
        match src.weighted(&[4, 4, 2, 3, 2, 1, 2, 1, 1, 1, 1]) {
            0 => t.push(*src.pick(&['a', 'é', '😀', ' ', '-', 'x', '}', '{'])),
            1 if src.chance(1, 12) => {
                // numbers around the 65535 cap
                t.push('$');
                t.push_str(*src.pick(&["65535", "65536", "655350", "655359", "65534", "99999", "100000", "6553", "065535"]));
            }
            1 => {
                t.push('$');
                let d = src.weighted(&[5, 3, 1, 1]) + 1;
                for _ in 0..d {
                    let lim = if src.chance(1, 2) { 4 } else { 10 };
                    t.push((b'0' + src.below(lim) as u8) as char);
                }
            }
            2 => t.push_str("$$"),
            3 => {
                t.push_str("${");
                t.push_str(*src.pick(TNAMES));
                t.push('}');
            }
            4 => t.push('$'),
            5 => {
                t.push_str("${");
                t.push_str(*src.pick(TNAMES));
            }
            6 => {
                // `$` in front of something that is not an ASCII digit, `$` or `{` is a literal dollar sign
                t.push('$');
                t.push(*src.pick(&['x', '\u{662}', '\u{FF12}', '\u{B2}', '\u{BD}', '\u{2167}', '\u{1D7D9}', '}', '-', ' ', 'é', '😀', '\u{0}', '\\', 'n']));
            }
            10 => {
                // digits followed by non-ASCII digits; names that are not group names
                t.push_str(*src.pick(&["$1\u{662}", "$\u{FF11}1", "${1}", "${ n1}", "${n1 }", "${N1}", "${n1\u{662}}", "${\u{662}}", "$1$", "${n1}}"]));
            }
            7 => t.push_str("$$$"),
            8 => t.push_str("$0"),
            9 => t.push_str("${}"),
            _ => unreachable!(),
        }
    }
    t
}

fn gen(src: &mut Src, tier: Tier) -> Case {
    fn tweak(cfg: &mut GenCfg, _src: &mut Src) {
        cfg.max_depth = 3;
    }
    let mut g = gen_general(src, tier, 10, 14, tweak);
    // rename groups n1..; duplicates across alternatives sometimes
    if src.chance(1, 4) {
        let a = Node::Group { name: Some("n1".into()), body: Box::new(Node::Lit(*src.pick(&g.alpha))) };
        let b = Node::Group { name: Some("n1".into()), body: Box::new(Node::Lit(*src.pick(&g.alpha))) };
        let node = Node::Alt(vec![a, Node::Cat(vec![b, Node::Group { name: None, body: Box::new(Node::Dot) }])]);
        g.case.pat = Printer::print(&node, g.fl.mode);
    }
    let template = gen_template(src);
    g.case.start = 0;
    g.case.x = json!({ "template": template });
    g.case
}

/// The documented template language, applied to one match.
fn expand(t: &str, m: &regress::Match, names: &[(String, Cap)], hay: &str, out: &mut String, in_contract: &mut bool) {
    let cs: Vec<char> = t.chars().collect();
    let mut i = 0;
    while i < cs.len() {
        let c = cs[i];
        if c != '$' {
            out.push(c);
            i += 1;
            continue;
        }
        match cs.get(i + 1) {
            Some('$') => {
                out.push('$');
                i += 2;
            }
            Some(d) if d.is_ascii_digit() => {
                let mut j = i + 1;
                let mut v: u64 = 0;
                let mut prefix: u64 = 0; // value of the run without its last digit
                while j < cs.len() && cs[j].is_ascii_digit() {
                    prefix = v;
                    v = v.saturating_mul(10).saturating_add(cs[j] as u64 - '0' as u64);
                    j += 1;
                }
                // The implementation stops reading digits once the number exceeds 65535 ("to avoid overflow"):
                // what happens to the digits after that point is unspecified. A run whose value without its last
                // digit is still <= 65535 is read completely under any reading, and denotes an absent group.
                if prefix > 65535 {
                    *in_contract = false;
                }
                let r = if v == 0 {
                    Some((m.range.start, m.range.end))
                } else if (v as usize) <= m.captures.len() {
                    m.captures[v as usize - 1].clone().map(|r| (r.start, r.end))
                } else {
                    None
                };
                if let Some((a, b)) = r {
                    out.push_str(&hay[a..b]);
                }
                i = j;
            }
            Some('{') => {
                let mut j = i + 2;
                let mut name = String::new();
                let mut closed = false;
                while j < cs.len() {
                    if cs[j] == '}' {
                        closed = true;
                        break;
                    }
                    name.push(cs[j]);
                    j += 1;
                }
                if closed {
                    if let Some((_, Some((a, b)))) = names.iter().find(|(n, _)| *n == name && !name.is_empty()) {
                        out.push_str(&hay[*a..*b]);
                    }
                    i = j + 1;
                } else {
                    out.push_str("${");
                    out.push_str(&name);
                    i = cs.len();
                }
            }
            _ => {
                out.push('$');
                i += 1;
            }
        }
    }
}

pub fn check(case: &Case, l: &mut Local) -> Verdict {
    let fl = Fl::parse(&case.flags);
    let template = case.x.get("template").and_then(|t| t.as_str()).unwrap_or("").to_string();
    let re = match compile(&case.pat, fl, false) {
        Ok(r) => r,
        Err(e) if is_infra_err(&e) => return Verdict::Skip("compile_infra"),
        Err(_) => return Verdict::Skip("rejected"),
    };
    let h = case.hay.as_str();
    regress::verif::set_fuel(DEFAULT_FUEL);
    let r = catch_unwind(AssertUnwindSafe(|| {
        let ms: Vec<regress::Match> = re.find_iter(h).take(h.len() + 2).collect();
        let ra = re.replace_all(h, &template);
        let r1 = re.replace(h, &template);
        let calls = std::cell::RefCell::new(Vec::<(usize, usize)>::new());
        let ident = re.replace_all_with(h, |m| {
            calls.borrow_mut().push((m.start(), m.end()));
            h[m.range()].to_string()
        });
        let konst = re.replace_all_with(h, |_| "<>".to_string());
        let first_with = re.replace_with(h, |m| format!("[{}]", &h[m.range()]));
        (ms, ra, r1, calls.into_inner(), ident, konst, first_with)
    }));
    let cut = regress::verif::report().exhausted;
    regress::verif::set_fuel(u64::MAX);
    if cut {
        return Verdict::Skip("cut_by_fuel");
    }
    let (ms, ra, r1, calls, ident, konst, first_with) = match r {
        Ok(x) => x,
        Err(p) => return Verdict::Fail(format!("panic: {}", panic_msg(p))),
    };
    // names -> participating group (per match), from the match's own named_groups()
    let mut in_contract = true;
    let mut model_all = String::new();
    let mut model_first: Option<String> = None;
    let mut last = 0;
    let mut expanded_nonempty = false;
    for m in &ms {
        let names: Vec<(String, Cap)> = m.named_groups().map(|(k, v)| (k.to_string(), v.map(|r| (r.start, r.end)))).collect();
        let mut e = String::new();
        expand(&template, m, &names, h, &mut e, &mut in_contract);
        if template.contains('$') && !e.is_empty() {
            expanded_nonempty = true;
        }
        if model_first.is_none() {
            model_first = Some(format!("{}{}{}", &h[..m.start()], e, &h[m.end()..]));
        }
        model_all.push_str(&h[last..m.start()]);
        model_all.push_str(&e);
        last = m.end();
    }
    model_all.push_str(&h[last..]);
    let model_first = model_first.unwrap_or_else(|| h.to_string());
    if in_contract {
        if ra != model_all {
            return Verdict::Fail(format!("replace_all = {:?}, model = {:?}", ra, model_all));
        }
        if r1 != model_first {
            return Verdict::Fail(format!("replace = {:?}, model = {:?}", r1, model_first));
        }
    } else {
        l.class("template_outside_contract(group number > 65535)");
    }
    if ident != h {
        return Verdict::Fail(format!("replace_all_with(identity) = {:?} != haystack", ident));
    }
    let want_calls: Vec<(usize, usize)> = ms.iter().map(|m| (m.start(), m.end())).collect();
    if calls != want_calls {
        return Verdict::Fail(format!("closure called with {:?}, matches are {:?}", calls, want_calls));
    }
    let matched_len: usize = ms.iter().map(|m| m.end() - m.start()).sum();
    if konst.len() != h.len() - matched_len + 2 * ms.len() {
        return Verdict::Fail(format!("replace_all_with(const) length {} inconsistent with {} matches", konst.len(), ms.len()));
    }
    let want_first = match ms.first() {
        Some(m) => format!("{}[{}]{}", &h[..m.start()], &h[m.range()], &h[m.end()..]),
        None => h.to_string(),
    };
    if first_with != want_first {
        return Verdict::Fail(format!("replace_with = {:?}, model = {:?}", first_with, want_first));
    }
    if ms.is_empty() && (ra != h || r1 != h) {
        return Verdict::Fail("no match but the haystack was changed".into());
    }
    if ms.len() >= 2 {
        l.class("multiple_matches");
    }
    if ms.iter().any(|m| m.start() == m.end()) {
        l.class("empty_match");
    }
    Verdict::Pass { nontrivial: !ms.is_empty() && expanded_nonempty }
}

// ---- bounded-exhaustive: every template of up to 3 tokens x 7 patterns x all haystacks in {a,b}^<=3
const TT: &[&str] = &["$$", "$0", "$1", "$2", "$3", "$01", "$10", "${n}", "${m}", "${", "$", "x", "}", "$x", "${}", "{n}"];
const TP: &[(&str, &str)] = &[("(a)(b)?", ""), ("(?<n>a)|(?<n>b)(.)", ""), ("(?<n>a)|b(?<m>.)?", ""), ("a*?", ""), ("(.)", ""), ("", ""), ("(?<n>b*)(?<m>a)", "u")];

fn slice_cases() -> Vec<Case> {
    let mut ts: Vec<String> = vec![String::new()];
    let mut layer: Vec<String> = vec![String::new()];
    for _ in 0..3 {
        let mut next = vec![];
        for b in &layer {
            for t in TT {
                next.push(format!("{}{}", b, t));
            }
        }
        ts.extend(next.iter().cloned());
        layer = next;
    }
    let mut out = vec![];
    for t in &ts {
        for (p, f) in TP {
            out.push(Case { pat: p.chars().map(|c| c as u32).collect(), flags: f.to_string(), hay: String::new(), hay16: vec![], start: 0, x: json!({ "template": t }) });
        }
    }
    out
}

fn gen_slice(src: &mut Src, _t: Tier) -> Case {
    let k = src.below(4);
    let t: String = (0..k).map(|_| *src.pick(TT)).collect();
    let (p, f) = *src.pick(TP);
    Case { pat: p.chars().map(|c| c as u32).collect(), flags: f.to_string(), hay: String::new(), hay16: vec![], start: 0, x: json!({ "template": t }) }
}

fn check_slice(case: &Case, l: &mut Local) -> Verdict {
    static HAYS: std::sync::OnceLock<Vec<String>> = std::sync::OnceLock::new();
    let hays = HAYS.get_or_init(|| super::common::all_strings(&[0x61, 0x62], 3));
    let mut nontrivial = false;
    for h in hays {
        let c = Case { hay: h.clone(), ..case.clone() };
        match check(&c, l) {
            Verdict::Fail(m) => return Verdict::Fail(format!("on \"{}\": {}", h, m)),
            Verdict::Pass { nontrivial: n } => nontrivial |= n,
            _ => {}
        }
    }
    Verdict::Pass { nontrivial }
}

pub static VX: Variant = Variant { name: "exhaustive_templates", choice_len: 6, gen: gen_slice, check: check_slice };
pub static V: Variant = Variant { name: "replace_model", choice_len: 400, gen, check };

pub fn variants() -> Vec<&'static Variant> {
    vec![&V, &VX]
}

pub fn run(ctx: &Ctx) -> i32 {
    ctx.run_list(&VX, &slice_cases());
    ctx.run_variant(&V, ctx.scale(500_000, 8_000_000));
    ctx.finish(
        "exploration",
        "(bounded-exhaustive) EVERY template of up to 3 tokens from {$$, $0, $1, $2, $3, $01, $10, ${n}, ${m}, ${, $, x, }, $x, ${}, {n}} x 7 patterns (optional and duplicated-name groups, empty and lazy matches) x ALL haystacks in {a,b}^<=3; generated patterns (empty, adjacent, multi-byte matches) x haystacks x templates from a token grammar ($, digit runs incl. $0 $01 $10, ${name} existing/missing/duplicated/unterminated, $$, $$$, trailing $, $x, multi-byte text); oracle = splice H[last..m.start] ++ expand(T,m) over the library's own find_iter sequence with the documented template language; closure variants: identity, constant (length arithmetic), call order, first-only. Non-trivial = at least one match and a $-form that expands to non-empty text.",
        &["the match sequence itself is taken from find_iter (C01/C09 judge it)", "a digit run is outside the asserted contract only when its value WITHOUT its last digit already exceeds 65535 (the implementation stops reading digits there); every other run - including $65535, $65536, $655350 - must expand to the group of that number or to nothing", "named groups resolve to the participating group (C16)"],
    )
}
