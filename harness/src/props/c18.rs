//! C18: escape(s) is a pattern that matches exactly the literal s.

use crate::drv::*;
use crate::pat::*;
use crate::run::*;
use crate::src::Src;
use serde_json::json;

const POOL: &[char] = &[
    '\\', '^', '$', '.', '|', '?', '*', '+', '(', ')', '[', ']', '{', '}', '-', '/', '0', '1', '9', 'a', 'b', 'A', 'k', 's', 'K', 'S', ' ', '\n', '\t',
    '\0', 'é', 'ß', 'ſ', '\u{212A}', 'σ', 'ς', 'Σ', '中', '😀', '𐐀', '𐐨', ',', ':', '&', '=', '<', '>', '!', '#', '%', '@', '`', '~', '_', 'd', 'w', 'p', 'u', 'x', 'c',
    'n', '\u{80}', '\u{FF}', '\u{100}', '\u{7FF}', '\u{800}', '\u{BF}', '\u{10000}',
];

fn gen(src: &mut Src, tier: Tier) -> Case {
    let slen = src.weighted(&[1, 3, 4, 4, 3, 2, 1, 1, 1]);
    let small: Vec<char> = (0..4).map(|_| *src.pick(POOL)).collect();
    let fl = Fl::all()[src.below(24) as usize];
    // a third of the strings are drawn from ALL cased code points (either canonicalisation), and their planted
    // copies are re-spelled with arbitrary members of each character's equivalence class
    let cased_mode = src.chance(1, 3);
    let all_cased = &super::c12::cased().0;
    let s: String = (0..slen)
        .map(|_| {
            if cased_mode && src.chance(3, 4) {
                char::from_u32(*src.pick(all_cased)).unwrap_or('a')
            } else if src.chance(2, 3) {
                *src.pick(&small)
            } else {
                *src.pick(POOL)
            }
        })
        .collect();
    let respell = |src: &mut Src, s: &str| -> String {
        s.chars()
            .map(|c| {
                let mut p = super::c12::partners(c as u32, fl.unicode());
                p.push(c as u32);
                char::from_u32(*src.pick(&p)).unwrap_or(c)
            })
            .collect()
    };
    // t: random text with planted (possibly overlapping) copies of s
    let mut t = String::new();
    let parts = src.range(0, if tier == Tier::Quick { 5 } else { 8 });
    for _ in 0..parts {
        match src.below(4) {
            0 if cased_mode => {
                let r = respell(src, &s);
                t.push_str(&r);
            }
            0 => t.push_str(&s),
            1 => {
                // partial copy
                let cs: Vec<char> = s.chars().collect();
                let k = src.below(cs.len() as u32 + 1) as usize;
                t.extend(cs[..k].iter());
            }
            2 => t.push(*src.pick(&small)),
            _ => t.push(*src.pick(POOL)),
        }
    }
    Case { pat: vec![], flags: fl.text(), hay: t, hay16: vec![], start: 0, x: json!({ "s": s }) }
}

fn unescape(e: &str) -> Option<String> {
    let cs: Vec<char> = e.chars().collect();
    let mut out = String::new();
    let mut i = 0;
    while i < cs.len() {
        if cs[i] == '\\' {
            let n = *cs.get(i + 1)?;
            if !is_syntax_char(n as u32) {
                return None;
            }
            out.push(n);
            i += 2;
        } else {
            if is_syntax_char(cs[i] as u32) {
                return None;
            }
            out.push(cs[i]);
            i += 1;
        }
    }
    Some(out)
}

pub fn check(case: &Case, l: &mut Local) -> Verdict {
    let s = case.x.get("s").and_then(|t| t.as_str()).unwrap_or("").to_string();
    let t = case.hay.as_str();
    let esc = regress::escape(&s);
    match unescape(&esc) {
        Some(u) if u == s => {}
        other => return Verdict::Fail(format!("escape({:?}) = {:?}: removing the backslashes before syntax characters gives {:?}", s, esc, other)),
    }
    let cps: Vec<u32> = esc.chars().map(|c| c as u32).collect();
    // compiles under every flag combination
    for fl in Fl::all() {
        if let Err(e) = compile(&cps, fl, false) {
            return Verdict::Fail(format!("escape({:?}) = {:?} does not compile with flags {:?}: {}", s, esc, fl.text(), e));
        }
    }
    let fl = Fl::parse(&case.flags);
    let re = match compile(&cps, fl, false) {
        Ok(r) => r,
        Err(e) => return Verdict::Fail(format!("does not compile: {}", e)),
    };
    let got = match find_all(&re, Engine::Bt, Enc::Utf8, t, 0, match_limit(t, 0) + 2, DEFAULT_FUEL) {
        Out::Ms(v) => v.iter().map(|m| (m.s, m.e)).collect::<Vec<_>>(),
        Out::Cut => return Verdict::Skip("cut_by_fuel"),
        o => return Verdict::Fail(format!("search failed: {}", o.show())),
    };
    let nontrivial;
    if !fl.i {
        let want: Vec<(usize, usize)> = if s.is_empty() {
            let mut v: Vec<(usize, usize)> = t.char_indices().map(|(i, _)| (i, i)).collect();
            v.push((t.len(), t.len()));
            v
        } else {
            t.match_indices(&s).map(|(i, m)| (i, i + m.len())).collect()
        };
        if got != want {
            return Verdict::Fail(format!("escape({:?}) with flags {:?} on {:?}: matches {:?}, substring search {:?}", s, fl.text(), t, got, want));
        }
        nontrivial = !want.is_empty() && s.chars().any(|c| is_syntax_char(c as u32) || !c.is_ascii());
    } else {
        // case-insensitive: judged against the canonical-equivalence scan
        let want = crate::uni::icase_occurrences(&s, t, fl.unicode());
        if got != want {
            return Verdict::Fail(format!("escape({:?}) with flags {:?} on {:?}: matches {:?}, case-insensitive scan {:?}", s, fl.text(), t, got, want));
        }
        l.class("icase");
        nontrivial = !want.is_empty() && s.chars().any(|c| is_syntax_char(c as u32) || !c.is_ascii());
    }
    if s.chars().any(|c| is_syntax_char(c as u32)) {
        l.class("has_syntax_char");
    }
    Verdict::Pass { nontrivial }
}

// ---- bounded-exhaustive (a): every string of up to 3 characters over the syntax characters and their neighbours
fn syntax_cases() -> Vec<Case> {
    const A: &[char] = &['\\', '^', '$', '.', '|', '?', '*', '+', '(', ')', '[', ']', '{', '}', '-', '/', 'a', '0', ','];
    let mut ss: Vec<String> = vec![String::new()];
    let mut layer: Vec<String> = vec![String::new()];
    for _ in 0..3 {
        let mut next = vec![];
        for b in &layer {
            for c in A {
                let mut t = b.clone();
                t.push(*c);
                next.push(t);
            }
        }
        ss.extend(next.iter().cloned());
        layer = next;
    }
    ss.iter()
        .enumerate()
        .map(|(k, s)| {
            let head: String = s.chars().take(1).collect();
            let t = format!("{}a{}{}{}", s, s, head, s);
            Case { pat: vec![], flags: Fl::all()[k % 24].text(), hay: t, hay16: vec![], start: 0, x: json!({ "s": s }) }
        })
        .collect()
}

// ---- bounded-exhaustive (b): every scalar value as a one-character string
const CP_BLOCK: u32 = 0x800;

fn cp_cases() -> Vec<Case> {
    (0..0x110000 / CP_BLOCK).map(|b| Case { x: json!({ "block": b }), ..Default::default() }).collect()
}

fn gen_cp(src: &mut Src, _t: Tier) -> Case {
    Case { x: json!({ "block": src.below(0x110000 / CP_BLOCK) }), ..Default::default() }
}

fn check_cp(case: &Case, l: &mut Local) -> Verdict {
    let b = case.x.get("block").and_then(|b| b.as_u64()).unwrap_or(0) as u32;
    let mut n = 0u64;
    for c in (b * CP_BLOCK..(b + 1) * CP_BLOCK).filter_map(char::from_u32) {
        let s = c.to_string();
        let esc = regress::escape(&s);
        match unescape(&esc) {
            Some(u) if u == s => {}
            other => return Verdict::Fail(format!("escape({:?}) = {:?}: removing the backslashes before syntax characters gives {:?}", s, esc, other)),
        }
        let cps: Vec<u32> = esc.chars().map(|c| c as u32).collect();
        let t = format!("x{}x{}", s, s);
        for f in ["", "u", "v", "i", "iu"] {
            let fl = Fl::parse(f);
            let re = match compile(&cps, fl, false) {
                Ok(r) => r,
                Err(e) => return Verdict::Fail(format!("escape({:?}) = {:?} does not compile with flags {:?}: {}", s, esc, f, e)),
            };
            let got = match find_all(&re, Engine::Bt, Enc::Utf8, &t, 0, 8, DEFAULT_FUEL) {
                Out::Ms(v) => v.iter().map(|m| (m.s, m.e)).collect::<Vec<_>>(),
                o => return Verdict::Fail(format!("search failed: {}", o.show())),
            };
            let want: Vec<(usize, usize)> = if fl.i { crate::uni::icase_occurrences(&s, &t, fl.unicode()) } else { t.match_indices(&s).map(|(i, m)| (i, i + m.len())).collect() };
            if got != want {
                return Verdict::Fail(format!("escape({:?}) with flags {:?} on {:?}: matches {:?}, expected {:?}", s, f, t, got, want));
            }
            n += 1;
        }
    }
    l.add("single_character_strings_x_flags", n);
    Verdict::Pass { nontrivial: true }
}

fn gen_syn(src: &mut Src, _t: Tier) -> Case {
    let v = syntax_cases();
    v[(src.raw() as usize).min(v.len() - 1)].clone()
}

pub static V_SYN: Variant = Variant { name: "exhaustive_syntax_strings", choice_len: 1, gen: gen_syn, check };
pub static V_CP: Variant = Variant { name: "every_scalar_value", choice_len: 1, gen: gen_cp, check: check_cp };
pub static V: Variant = Variant { name: "escape_literal", choice_len: 200, gen, check };

pub fn variants() -> Vec<&'static Variant> {
    vec![&V, &V_SYN, &V_CP]
}

pub fn run(ctx: &Ctx) -> i32 {
    ctx.run_list(&V_SYN, &syntax_cases());
    ctx.run_list(&V_CP, &cp_cases());
    ctx.run_variant(&V, ctx.scale(300_000, 5_000_000));
    ctx.finish(
        "exploration",
        "(bounded-exhaustive) EVERY string of up to 3 characters over the 16 characters escape() treats specially plus a, 0 and comma (7k strings, planted full / partial / adjacent); EVERY scalar value as a one-character string under -, u, v, i, iu (5.5M compile-and-search runs); strings s over syntax characters, '-', '/', digits, letters that follow backslashes in escapes (d w p u x c n k), whitespace, NUL, 1-4-byte and case-special characters (length 0-8) x texts t with planted full / partial / overlapping copies x one of the 24 flag sets for matching (compilation is checked under all 24). Oracle: round trip (removing the backslash before each syntax character restores s and nothing else changed), str::match_indices without i (every boundary for the empty string), canonical-equivalence scan with i. Non-trivial = s contains a syntax or non-ASCII character and t contains an occurrence.",
        &["case-insensitive occurrences use the harness's independent canonicalisation (std full upper-casing + ES legacy rule; regex-syntax simple folding) - see uni.rs"],
    )
}
