//! C12: character classes evaluate as sets (legacy brackets and v-mode class sets).

use crate::drv::*;
use crate::esref::{self, Found, RefErr};
use crate::pat::*;
use crate::run::*;
use crate::src::Src;
use serde_json::json;
use std::collections::{BTreeSet, HashMap};
use std::sync::OnceLock;

fn legacy_partners() -> &'static HashMap<u32, Vec<u32>> {
    static M: OnceLock<HashMap<u32, Vec<u32>>> = OnceLock::new();
    M.get_or_init(|| {
        let mut by: HashMap<u32, Vec<u32>> = HashMap::new();
        for c in 0..=0x10FFFFu32 {
            if char::from_u32(c).is_none() {
                continue;
            }
            let k = crate::uni::legacy_canon(c);
            if k != c {
                by.entry(k).or_default().push(c);
            }
        }
        let mut out = HashMap::new();
        for (k, v) in by {
            let mut all = v.clone();
            all.push(k);
            for c in &all {
                out.insert(*c, all.clone());
            }
        }
        out
    })
}

pub fn partners(c: u32, unicode: bool) -> Vec<u32> {
    if unicode {
        let s = crate::uni::scf();
        match s.rep.get(&c) {
            Some(r) => s.classes.get(r).cloned().unwrap_or_default(),
            None => vec![],
        }
    } else {
        legacy_partners().get(&c).cloned().unwrap_or_default()
    }
}

fn chars_of_cs(cs: &Cs, out: &mut Vec<u32>, strs: &mut Vec<Vec<u32>>) {
    for op in &cs.ops {
        match op {
            CsOp::Ch(c) => out.push(*c),
            CsOp::Range(a, b) => {
                out.push(*a);
                out.push(*b);
                out.push((*a + *b) / 2);
            }
            CsOp::Q(v) => {
                for s in v {
                    out.extend(s.iter().copied());
                    strs.push(s.clone());
                }
            }
            CsOp::Nested(c) => chars_of_cs(c, out, strs),
            _ => {}
        }
    }
}

fn probes_for(mentioned: &[u32], strs: &[Vec<u32>], unicode: bool, src: &mut Src) -> Vec<String> {
    let mut set: BTreeSet<Vec<u32>> = BTreeSet::new();
    set.insert(vec![]);
    let decoys = [0x00u32, 0x0A, 0x20, 0x30, 0x39, 0x41, 0x5A, 0x5F, 0x61, 0x7A, 0x7F, 0x80, 0xA0, 0xDF, 0x17F, 0x212A, 0x2028, 0x3B1, 0x4E2D, 0xD7FF, 0xE000, 0xFFFF, 0x10000, 0x10400, 0x1F600, 0x10FFFF];
    for c in mentioned {
        for d in [*c, c.wrapping_sub(1), c + 1] {
            if char::from_u32(d).is_some() {
                set.insert(vec![d]);
            }
        }
        for p in partners(*c, unicode) {
            set.insert(vec![p]);
        }
    }
    for d in decoys {
        set.insert(vec![d]);
    }
    for s in strs {
        set.insert(s.clone());
        if !s.is_empty() {
            set.insert(s[..s.len() - 1].to_vec());
            let mut e = s.clone();
            e.push(*s.last().unwrap());
            set.insert(e);
            // case variant
            let mut v = s.clone();
            let k = src.below(v.len() as u32) as usize;
            if let Some(p) = partners(v[k], unicode).into_iter().find(|p| *p != v[k]) {
                v[k] = p;
                set.insert(v);
            }
        }
    }
    set.into_iter().filter(|v| v.iter().all(|c| char::from_u32(*c).is_some())).map(|v| cps_to_string(&v)).collect()
}

fn class_alphabet(src: &mut Src) -> Vec<u32> {
    let mut a = gen_alphabet(src);
    if src.chance(1, 3) {
        // interval-algebra stress points
        a = vec![0x00, 0x7F, 0x80, 0xD7FF, 0xE000, 0x10FFFF, 0x61];
    }
    a
}

// ---- variant 1: class vs reference model on probes

fn gen_class_case(src: &mut Src, _t: Tier) -> Case {
    let fl = Fl::gen(src);
    let alpha = class_alphabet(src);
    let cfg = GenCfg::full(fl, alpha.clone());
    let mut mentioned = vec![];
    let mut strs = vec![];
    let class = if fl.mode == Mode::V {
        let cs = gen_cs(src, &cfg, 0);
        chars_of_cs(&cs, &mut mentioned, &mut strs);
        Node::ClassSet(cs)
    } else {
        let n = gen_class(src, &cfg);
        if let Node::Class { items, .. } = &n {
            for it in items {
                match it {
                    ClassItem::Ch(c) => mentioned.push(*c),
                    ClassItem::Range(a, b) => {
                        mentioned.push(*a);
                        mentioned.push(*b);
                        mentioned.push((*a + *b) / 2);
                    }
                    _ => {}
                }
            }
        }
        n
    };
    let quant = src.chance(1, 5);
    let body = if quant { Node::Quant { body: Box::new(class), min: 1, max: Some(2), lazy: false, braces: true } } else { class };
    // a fifth of the classes sit in a modifier group that switches i on or off locally
    let body = match src.below(10) {
        0 => Node::Mods { on: 1, off: 0, body: Box::new(body) },
        1 => Node::Mods { on: 0, off: 1, body: Box::new(body) },
        _ => body,
    };
    let node = Node::Cat(vec![Node::Bol, body, Node::Eol]);
    let pat = Printer::print(&node, fl.mode);
    let probes = probes_for(&mentioned, &strs, fl.unicode(), src);
    Case { pat, flags: fl.text(), hay: String::new(), hay16: vec![], start: 0, x: json!({ "probes": probes }) }
}

/// Annex B / syntactic spellings of legacy and u brackets that the AST printer does not produce
fn gen_raw_class_case(src: &mut Src, _t: Tier) -> Case {
    const FRAGS: &[&str] = &[
        "a", "b", "z", "A", "-", "\\-", "a-z", "A-Z", "0-9", "\\d", "\\D", "\\w", "\\W", "\\s", "\\S", "a-\\d", "\\d-a", "\\w-z", "--a", "a--", "+--", "\\b", "\\c1", "\\c_", "\\cA", "\\c", "\\1", "\\8",
        "\\01", "\\x41", "\\x4", "\\u0041", "\\u{61}", "\\uD83D\\uDE00", "\\0", "^", "\\^", "]", "\\]", "[", "\\[", "\\\\", ".", "$", "|", "\\p{Lu}", "\\P{Lu}", "\\p{L}", "é", "ſ", "K", "😀",
        "\\B", "\\k", "\\q", "&&", "&", "!", "~~",
    ];
    let fl = Fl { mode: *src.pick(&[Mode::Legacy, Mode::U]), ..Fl::gen(src) };
    let neg = src.chance(1, 3);
    let n = src.weighted(&[1, 3, 4, 3, 2]);
    let mut body = String::new();
    for _ in 0..n {
        body.push_str(*src.pick(FRAGS));
    }
    let pat_s = format!("^[{}{}]$", if neg { "^" } else { "" }, body);
    let pat: Vec<u32> = pat_s.chars().map(|c| c as u32).collect();
    let mentioned: Vec<u32> = vec![0x61, 0x62, 0x7A, 0x41, 0x2D, 0x30, 0x39, 0x08, 0x11, 0x1F, 0x01, 0x38, 0x5C, 0x63, 0x5E, 0x5D, 0x5B, 0x2E, 0x24, 0x7C, 0x2B, 0x42, 0x6B, 0x71, 0x26, 0x21, 0x7E, 0x75, 0x78, 0x34];
    let probes = probes_for(&mentioned, &[], fl.unicode(), src);
    Case { pat, flags: fl.text(), hay: String::new(), hay16: vec![], start: 0, x: json!({ "probes": probes }) }
}

fn x_probes(case: &Case) -> Vec<String> {
    case.x.get("probes").and_then(|a| a.as_array()).map(|a| a.iter().filter_map(|v| v.as_str().map(|s| s.to_string())).collect()).unwrap_or_default()
}

fn regress_matches(re: &regress::Regex, h: &str) -> Result<Option<bool>, String> {
    match find_first(re, h, 0, 400_000).0 {
        Out::Ms(v) => Ok(Some(!v.is_empty())),
        Out::Cut => Ok(None),
        Out::Panic(p) => Err(p),
        Out::Overrun(_) => Ok(None),
    }
}

pub fn check_class(case: &Case, l: &mut Local) -> Verdict {
    let fl = Fl::parse(&case.flags);
    let re = compile(&case.pat, fl, false);
    let rf = esref::compile(&case.pat, fl);
    let (re, rf) = match (re, rf) {
        (Err(e), _) if is_infra_err(&e) => return Verdict::Skip("compile_infra"),
        (Err(_), Err(RefErr::Syntax(_))) => return Verdict::Skip("both_reject"),
        (Err(_), Err(_)) => return Verdict::Skip("reference_declines"),
        (Err(e), Ok(_)) => {
            if let Some(id) = crate::kf::explain_accept(&case.pat, fl, false) {
                return Verdict::Known(id);
            }
            return Verdict::Fail(format!("regress rejects a valid class: {}", e));
        }
        (Ok(_), Err(RefErr::Syntax(e))) => {
            if let Some(id) = crate::kf::explain_accept(&case.pat, fl, true) {
                return Verdict::Known(id);
            }
            return Verdict::Fail(format!("regress accepts an invalid class ({})", e));
        }
        (Ok(_), Err(RefErr::Decline(_))) => return Verdict::Skip("reference_declines"),
        (Ok(a), Ok(b)) => (a, b),
    };
    let re_noopt = compile(&case.pat, fl, true).ok();
    let mut yes = 0;
    let mut no = 0;
    for h in x_probes(case) {
        let want = match rf.find(&h, 0, 500_000).0 {
            Found::Match(_) => true,
            Found::NoMatch => false,
            Found::Aborted => continue,
        };
        for (which, r) in [("opt", Some(&re)), ("no_opt", re_noopt.as_ref())] {
            let r = match r {
                Some(r) => r,
                None => continue,
            };
            match regress_matches(r, &h) {
                Err(p) => return Verdict::Fail(format!("panic on probe \"{}\": {}", show_str(&h), p)),
                Ok(None) => {}
                Ok(Some(got)) => {
                    if got != want {
                        let got_m = match find_first(r, &h, 0, 400_000).0 {
                            Out::Ms(v) => v.into_iter().next(),
                            _ => None,
                        };
                        if let Some(id) = crate::kf::explain_match(&case.pat, fl, &h, 0, &got_m, 500_000) {
                            return Verdict::Known(id);
                        }
                        return Verdict::Fail(format!(
                            "probe \"{}\" ({}): regress says {}, the set denoted by the class says {}",
                            show_str(&h),
                            which,
                            if got { "member" } else { "not a member" },
                            if want { "member" } else { "not a member" }
                        ));
                    }
                }
            }
        }
        // every second case: the PikeVM must agree with the set as well
        if case.hash() % 2 == 0 {
            if let Out::Ms(v) = first_with(&re, Engine::Pike, Enc::Utf8, &h, 0, 400_000).0 {
                if v.is_empty() == want {
                    if let Some(id) = crate::kf::explain_match(&case.pat, fl, &h, 0, &v.into_iter().next(), 500_000) {
                        return Verdict::Known(id);
                    }
                    return Verdict::Fail(format!("probe \"{}\" (PikeVM): regress says {}, the set denoted by the class says {}", show_str(&h), if want { "not a member" } else { "member" }, if want { "member" } else { "not a member" }));
                }
            }
        }
        if want {
            yes += 1
        } else {
            no += 1
        }
    }
    if fl.i {
        l.class("icase");
    }
    if fl.mode == Mode::V {
        l.class("v_mode");
    }
    let ops = case.pat.iter().filter(|c| matches!(char::from_u32(**c), Some('-' | '&' | '\\' | '['))).count();
    Verdict::Pass { nontrivial: ops >= 2 && yes > 0 && no > 0 }
}

// ---- variant 1a: bounded-exhaustive legacy / u bracket contents: all sequences of up to 3 tokens

pub fn bracket_cases() -> Vec<Case> {
    bracket_slice().clone()
}

fn bracket_slice() -> &'static Vec<Case> {
    static S: OnceLock<Vec<Case>> = OnceLock::new();
    S.get_or_init(|| {
        const T: &[&str] = &["a", "b", "A", "-", "\\-", "\\d", "\\w", "\\W", "\\s", "^", "\\b", "\\B", "\\]", "[", "\\c", "\\1"];
        let probes: Vec<&str> = vec!["a", "b", "A", "B", "-", "^", "0", "9", "_", " ", "\u{8}", "\\", "]", "[", "c", "1", "\u{1}", "k", "K", "\u{212A}", "\u{17F}", "s", "S", "", "ab"];
        let mut bodies: Vec<String> = vec![String::new()];
        let mut layer: Vec<String> = vec![String::new()];
        for _ in 0..3 {
            let mut next = vec![];
            for b in &layer {
                for t in T {
                    next.push(format!("{}{}", b, t));
                }
            }
            bodies.extend(next.iter().cloned());
            layer = next;
        }
        let mut out = vec![];
        for b in &bodies {
            for neg in ["", "^"] {
                for f in ["", "i", "u", "iu"] {
                    let pat_s = format!("^[{}{}]$", neg, b);
                    out.push(Case { pat: pat_s.chars().map(|c| c as u32).collect(), flags: f.to_string(), hay: String::new(), hay16: vec![], start: 0, x: json!({ "probes": probes }) });
                }
            }
        }
        out
    })
}

fn gen_bracket_slice(src: &mut Src, _t: Tier) -> Case {
    let v = bracket_slice();
    v[(src.raw() as usize).min(v.len() - 1)].clone()
}

pub static V_BSLICE: Variant = Variant { name: "exhaustive_bracket_tokens", choice_len: 1, gen: gen_bracket_slice, check: check_class };

// ---- variant 1b: bounded-exhaustive v-mode expressions of depth <= 2 over a small operand set

fn slice_operands() -> Vec<CsOp> {
    let q = |v: Vec<&str>| CsOp::Q(v.into_iter().map(|s| s.chars().map(|c| c as u32).collect()).collect());
    vec![
        CsOp::Ch(0x61),
        CsOp::Ch(0x62),
        CsOp::Ch(0x41),
        CsOp::Range(0x61, 0x62),
        CsOp::Esc(b'd'),
        CsOp::Esc(b'w'),
        CsOp::Esc(b'W'),
        q(vec!["ab"]),
        q(vec!["a", "bc"]),
        q(vec![""]),
        q(vec!["ab", "AB", "b"]),
        CsOp::Nested(Box::new(Cs { neg: false, kind: CsKind::Union, ops: vec![CsOp::Ch(0x61), CsOp::Ch(0x42)] })),
        CsOp::Nested(Box::new(Cs { neg: true, kind: CsKind::Union, ops: vec![CsOp::Ch(0x61)] })),
    ]
}

fn wrap_for(kind: &CsKind, op: &CsOp) -> CsOp {
    match (kind, op) {
        (CsKind::Union, _) => op.clone(),
        (_, CsOp::Range(a, b)) => CsOp::Nested(Box::new(Cs { neg: false, kind: CsKind::Union, ops: vec![CsOp::Range(*a, *b)] })),
        _ => op.clone(),
    }
}

fn cs_strings(cs: &Cs) -> bool {
    // static MayContainStrings of the generated tree (mirrors the generator's rule)
    let op_s = |op: &CsOp| match op {
        CsOp::Q(v) => v.is_empty() || v.iter().any(|s| s.len() != 1),
        CsOp::Nested(c) => !c.neg && cs_strings(c),
        _ => false,
    };
    match cs.kind {
        CsKind::Union => cs.ops.iter().any(op_s),
        CsKind::Inter => cs.ops.iter().all(op_s),
        CsKind::Sub => cs.ops.first().map(op_s).unwrap_or(false),
    }
}

fn v_slice() -> &'static Vec<Case> {
    static V: OnceLock<Vec<Case>> = OnceLock::new();
    V.get_or_init(|| {
        let ops = slice_operands();
        let kinds = [CsKind::Union, CsKind::Inter, CsKind::Sub];
        let mut e1: Vec<Cs> = vec![];
        for k in &kinds {
            for a in &ops {
                for b in &ops {
                    e1.push(Cs { neg: false, kind: k.clone(), ops: vec![wrap_for(k, a), wrap_for(k, b)] });
                }
            }
        }
        let mut all: Vec<Cs> = e1.clone();
        for k in &kinds {
            for e in &e1 {
                for o in &ops {
                    all.push(Cs { neg: false, kind: k.clone(), ops: vec![CsOp::Nested(Box::new(e.clone())), wrap_for(k, o)] });
                    all.push(Cs { neg: false, kind: k.clone(), ops: vec![wrap_for(k, o), CsOp::Nested(Box::new(e.clone()))] });
                }
            }
        }
        let probes: Vec<String> = ["", "a", "b", "c", "A", "B", "C", "1", "_", "-", " ", "ab", "AB", "aB", "bc", "BC", "abc", "ba", "é", "ſ", "K"].iter().map(|s| s.to_string()).collect();
        let mut out = vec![];
        for cs in all {
            let may = cs_strings(&cs);
            for neg in [false, true] {
                if neg && may {
                    continue;
                }
                let c = Cs { neg, ..cs.clone() };
                let mut pat = vec!['^' as u32];
                pat.extend(print_cs(&c));
                pat.push('$' as u32);
                for f in ["v", "iv"] {
                    out.push(Case { pat: pat.clone(), flags: f.to_string(), hay: String::new(), hay16: vec![], start: 0, x: json!({ "probes": probes }) });
                }
            }
        }
        out
    })
}

fn gen_vslice(src: &mut Src, _t: Tier) -> Case {
    let v = v_slice();
    v[(src.raw() as usize).min(v.len() - 1)].clone()
}

// ---- variant 2: metamorphic laws on v-mode expressions (no oracle)

fn print_cs(cs: &Cs) -> Vec<u32> {
    Printer::print(&Node::ClassSet(cs.clone()), Mode::V)
}

fn has_strings(cs: &Cs) -> bool {
    cs.ops.iter().any(|op| match op {
        CsOp::Q(_) => true,
        CsOp::Nested(c) => has_strings(c),
        _ => false,
    })
}

fn gen_laws(src: &mut Src, _t: Tier) -> Case {
    let fl = Fl { mode: Mode::V, ..Fl::gen(src) };
    let alpha = class_alphabet(src);
    let cfg = GenCfg::full(fl, alpha);
    let mut a = gen_cs(src, &cfg, 1);
    let mut b = gen_cs(src, &cfg, 1);
    a.neg = false;
    b.neg = false;
    let nest = |c: &Cs| CsOp::Nested(Box::new(c.clone()));
    let neg = |c: &Cs| CsOp::Nested(Box::new(Cs { neg: true, kind: CsKind::Union, ops: vec![CsOp::Nested(Box::new(c.clone()))] }));
    let strings = has_strings(&a) || has_strings(&b);
    let law = if strings { src.below(3) } else { src.below(7) };
    let (lhs, rhs, name) = match law {
        0 => (Cs { neg: false, kind: CsKind::Inter, ops: vec![nest(&a), nest(&b)] }, Cs { neg: false, kind: CsKind::Inter, ops: vec![nest(&b), nest(&a)] }, "A&&B = B&&A"),
        1 => (Cs { neg: false, kind: CsKind::Union, ops: vec![nest(&a)] }, a.clone(), "[[A]] = [A]"),
        2 => (Cs { neg: false, kind: CsKind::Union, ops: vec![nest(&a), nest(&b)] }, Cs { neg: false, kind: CsKind::Union, ops: vec![nest(&b), nest(&a), nest(&a)] }, "[AB] = [BAA]"),
        3 => (Cs { neg: false, kind: CsKind::Sub, ops: vec![nest(&a), nest(&b)] }, Cs { neg: false, kind: CsKind::Inter, ops: vec![nest(&a), neg(&b)] }, "A--B = A&&[^B]"),
        4 => (Cs { neg: true, kind: CsKind::Union, ops: vec![neg(&a)] }, a.clone(), "[^[^A]] = [A]"),
        5 => (Cs { neg: true, kind: CsKind::Union, ops: vec![nest(&a), nest(&b)] }, Cs { neg: false, kind: CsKind::Inter, ops: vec![neg(&a), neg(&b)] }, "[^[AB]] = [^A]&&[^B]"),
        _ => (Cs { neg: true, kind: CsKind::Inter, ops: vec![nest(&a), nest(&b)] }, Cs { neg: false, kind: CsKind::Union, ops: vec![neg(&a), neg(&b)] }, "[^A&&B] = [^A][^B]"),
    };
    let wrap = |c: &Cs| -> Vec<u32> {
        let mut v = vec!['^' as u32];
        v.extend(print_cs(c));
        v.push('$' as u32);
        v
    };
    let mut mentioned = vec![];
    let mut strs = vec![];
    chars_of_cs(&a, &mut mentioned, &mut strs);
    chars_of_cs(&b, &mut mentioned, &mut strs);
    let probes = probes_for(&mentioned, &strs, true, src);
    Case { pat: wrap(&lhs), flags: fl.text(), hay: String::new(), hay16: vec![], start: 0, x: json!({ "probes": probes, "rhs": wrap(&rhs), "law": name }) }
}

fn check_laws(case: &Case, l: &mut Local) -> Verdict {
    let fl = Fl::parse(&case.flags);
    let rhs: Vec<u32> = case.x["rhs"].as_array().map(|a| a.iter().filter_map(|v| v.as_u64().map(|n| n as u32)).collect()).unwrap_or_default();
    let law = case.x["law"].as_str().unwrap_or("?").to_string();
    let a = match compile(&case.pat, fl, false) {
        Ok(r) => r,
        Err(e) if is_infra_err(&e) => return Verdict::Skip("compile_infra"),
        Err(e) => return Verdict::Fail(format!("left side of law {} rejected: {}", law, e)),
    };
    let b = match compile(&rhs, fl, false) {
        Ok(r) => r,
        Err(e) if is_infra_err(&e) => return Verdict::Skip("compile_infra"),
        Err(e) => return Verdict::Fail(format!("right side /{}/ of law {} rejected: {}", show(&rhs), law, e)),
    };
    let mut yes = 0;
    let mut no = 0;
    for h in x_probes(case) {
        let (x, y) = match (regress_matches(&a, &h), regress_matches(&b, &h)) {
            (Ok(Some(x)), Ok(Some(y))) => (x, y),
            (Err(p), _) | (_, Err(p)) => return Verdict::Fail(format!("panic: {}", p)),
            _ => continue,
        };
        if x != y {
            return Verdict::Fail(format!("law {} broken on probe \"{}\": /{}/ says {}, /{}/ says {}", law, show_str(&h), show(&case.pat), x, show(&rhs), y));
        }
        if x {
            yes += 1
        } else {
            no += 1
        }
    }
    l.class(&format!("law {}", law));
    Verdict::Pass { nontrivial: yes > 0 && no > 0 }
}

// ---- variant 3: exhaustive sweeps of the fixed sets over all scalar values

fn all_scalars() -> &'static String {
    static S: OnceLock<String> = OnceLock::new();
    S.get_or_init(|| (0..=0x10FFFFu32).filter_map(char::from_u32).collect())
}

fn sweep(re: &regress::Regex) -> Result<crate::esref::cpset::CpSet, String> {
    let h = all_scalars();
    let mut v: Vec<(u32, u32)> = vec![];
    regress::verif::set_fuel(u64::MAX);
    for m in re.find_iter(h) {
        let s = &h[m.range()];
        let mut it = s.chars();
        let c = it.next().ok_or("empty match in sweep")? as u32;
        if it.next().is_some() {
            return Err(format!("match of more than one character in sweep at {}", m.start()));
        }
        match v.last_mut() {
            Some(last) if last.1 + 1 == c => last.1 = c,
            _ => v.push((c, c)),
        }
    }
    Ok(crate::esref::cpset::CpSet::from_ranges(v))
}

fn surrogates() -> crate::esref::cpset::CpSet {
    crate::esref::cpset::CpSet::from_ranges(vec![(0xD800, 0xDFFF)])
}

fn sweep_cases() -> Vec<Case> {
    let mut v = vec![];
    for fl in ["", "u", "v", "s", "su", "sv", "m"] {
        for p in ["\\d", "\\D", "\\w", "\\W", "\\s", "\\S", "[\\d]", "[\\D]", "[\\w]", "[\\W]", "[\\s]", "[\\S]", "[^\\d]", "[^\\D]", "[^\\w]", "[^\\W]", "[^\\s]", "[^\\S]", ".", "[^]", "[\\d\\s]", "[^\\d\\s]", "[\\w\\W]", "[^\\w\\W]", "[\\D\\S]", "-\\b.\\b-", "-\\B.\\B-"] {
            v.push(Case { pat: p.chars().map(|c| c as u32).collect(), flags: fl.to_string(), hay: String::new(), hay16: vec![], start: 0, x: serde_json::Value::Null });
        }
    }
    v
}

fn gen_sweep(src: &mut Src, _t: Tier) -> Case {
    let v = sweep_cases();
    v[(src.raw() as usize).min(v.len() - 1)].clone()
}

fn check_sweep(case: &Case, l: &mut Local) -> Verdict {
    use crate::esref::udata;
    let fl = Fl::parse(&case.flags);
    let p = crate::pat::show(&case.pat);
    let re = match compile(&case.pat, fl, false) {
        Ok(r) => r,
        Err(e) => return Verdict::Fail(format!("does not compile: {}", e)),
    };
    let all = crate::esref::cpset::CpSet::all().subtract(&surrogates());
    let (d, w, s) = (udata::digits(), udata::basic_word(), udata::white_space());
    let lt = udata::line_terminators();
    let neg = |x: &crate::esref::cpset::CpSet| all.subtract(x);
    let want = match p.as_str() {
        "\\d" | "[\\d]" | "[^\\D]" => d.clone(),
        "\\D" | "[\\D]" | "[^\\d]" => neg(&d),
        "\\w" | "[\\w]" | "[^\\W]" => w.clone(),
        "\\W" | "[\\W]" | "[^\\w]" => neg(&w),
        "\\s" | "[\\s]" | "[^\\S]" => s.clone(),
        "\\S" | "[\\S]" | "[^\\s]" => neg(&s),
        "." => {
            if fl.s {
                all.clone()
            } else {
                neg(&lt)
            }
        }
        "[^]" | "[\\w\\W]" | "[\\D\\S]" => all.clone(),
        "[^\\w\\W]" => crate::esref::cpset::CpSet::new(),
        "[\\d\\s]" => d.union(&s),
        "[^\\d\\s]" => neg(&d.union(&s)),
        "-\\b.\\b-" | "-\\B.\\B-" => {
            // word-boundary sweep: every scalar value between its own pair of dashes
            let mut h = String::with_capacity(7_000_000);
            for c in (0..=0x10FFFFu32).filter_map(char::from_u32) {
                h.push('-');
                h.push(c);
                h.push('-');
            }
            let re2 = match compile(&case.pat, Fl { s: true, ..fl }, false) {
                Ok(r) => r,
                Err(e) => return Verdict::Fail(format!("does not compile: {}", e)),
            };
            let mut got: Vec<(u32, u32)> = vec![];
            for m in re2.find_iter(&h) {
                let c = h[m.start() + 1..].chars().next().unwrap() as u32;
                got.push((c, c));
            }
            let got = crate::esref::cpset::CpSet::from_ranges(got);
            let mut want = if p.contains("\\b") { w.clone() } else { neg(&w) };
            if p.contains("\\B") {
                // '-' between dashes: "---": \B.\B matches the middle dash too, and overlapping windows may shift; restrict to non-dash
                want = want.subtract(&crate::esref::cpset::CpSet::single(0x2D));
            }
            let got = got.subtract(&crate::esref::cpset::CpSet::single(0x2D));
            if got != want {
                let diff = got.subtract(&want).union(&want.subtract(&got));
                return Verdict::Fail(format!("/{}/{}: word-boundary sweep differs on {} code points, first U+{:04X}", p, case.flags, diff.count(), diff.r[0].0));
            }
            l.add("code_points_swept", 1_112_064);
            return Verdict::Pass { nontrivial: true };
        }
        _ => return Verdict::Skip("unknown_sweep"),
    };
    let got = match sweep(&re) {
        Ok(g) => g,
        Err(e) => return Verdict::Fail(format!("/{}/{}: {}", p, case.flags, e)),
    };
    if got != want {
        let diff = got.subtract(&want).union(&want.subtract(&got));
        return Verdict::Fail(format!(
            "/{}/{} over all scalar values: differs from the ECMAScript set on {} code points, first U+{:04X} (regress {}, spec {})",
            p,
            case.flags,
            diff.count(),
            diff.r[0].0,
            got.contains(diff.r[0].0),
            want.contains(diff.r[0].0)
        ));
    }
    l.add("code_points_swept", 1_112_064);
    Verdict::Pass { nontrivial: true }
}

// ---- variant 5: every interval of up to 4 code points that starts or ends at a cased code point, under i / iu / iv,
// plain and negated, against the canonical-equivalence closure (oracle: uni.rs = std + ES rule / V8 scf export)

pub fn cased() -> &'static (Vec<u32>, String) {
    static C: OnceLock<(Vec<u32>, String)> = OnceLock::new();
    C.get_or_init(|| {
        let mut set: BTreeSet<u32> = BTreeSet::new();
        for c in (0..=0x10FFFFu32).filter(|c| char::from_u32(*c).is_some()) {
            for uni in [false, true] {
                let k = crate::uni::canon(c, uni);
                if k != c {
                    set.insert(c);
                    set.insert(k);
                }
            }
        }
        let cased: Vec<u32> = set.iter().copied().collect();
        // probes: cased code points and their neighbours
        let mut probes: BTreeSet<u32> = BTreeSet::new();
        for c in &cased {
            for d in c.saturating_sub(4)..=(c + 4).min(0x10FFFF) {
                if char::from_u32(d).is_some() {
                    probes.insert(d);
                }
            }
        }
        (cased, probes.iter().filter_map(|c| char::from_u32(*c)).collect())
    })
}

const ISWEEP_BLOCK: usize = 32;

fn isweep_cases() -> Vec<Case> {
    let n = (cased().0.len() + ISWEEP_BLOCK - 1) / ISWEEP_BLOCK;
    (0..n).map(|b| Case { x: json!({"block": b}), ..Default::default() }).collect()
}

fn gen_isweep(src: &mut Src, _t: Tier) -> Case {
    let n = (cased().0.len() + ISWEEP_BLOCK - 1) / ISWEEP_BLOCK;
    Case { x: json!({"block": src.below(n as u32)}), ..Default::default() }
}

fn check_isweep(case: &Case, l: &mut Local) -> Verdict {
    let (cased, hay) = cased();
    let b = case.x.get("block").and_then(|b| b.as_u64()).unwrap_or(0) as usize;
    let esc = |c: u32, unicode: bool| -> Vec<u32> {
        let t = if unicode { format!("\\u{{{:X}}}", c) } else if c <= 0xFFFF { format!("\\u{:04X}", c) } else { char::from_u32(c).unwrap().to_string() };
        t.chars().map(|c| c as u32).collect()
    };
    let mut n = 0u64;
    for &c in cased.iter().skip(b * ISWEEP_BLOCK).take(ISWEEP_BLOCK) {
        let mut ivs: Vec<(u32, u32)> = vec![];
        for k in 0..4u32 {
            ivs.push((c, (c + k).min(0x10FFFF)));
            ivs.push((c.saturating_sub(k), c));
        }
        ivs.sort();
        ivs.dedup();
        for (lo, hi) in ivs {
            if (lo..=hi).any(|x| char::from_u32(x).is_none()) {
                continue;
            }
            for f in ["i", "iu", "iv"] {
                let fl = Fl::parse(f);
                let uni = fl.unicode();
                let canon_set: BTreeSet<u32> = (lo..=hi).map(|a| crate::uni::canon(a, uni)).collect();
                for neg in [false, true] {
                    let mut pat: Vec<u32> = vec![0x5B];
                    if neg {
                        pat.push(0x5E);
                    }
                    pat.extend(esc(lo, uni));
                    if hi > lo {
                        pat.push(0x2D);
                        pat.extend(esc(hi, uni));
                    }
                    pat.push(0x5D);
                    let re = match compile(&pat, fl, false) {
                        Ok(r) => r,
                        Err(e) => return Verdict::Fail(format!("/{}/{} does not compile: {}", show(&pat), f, e)),
                    };
                    regress::verif::set_fuel(u64::MAX);
                    let mut got: BTreeSet<u32> = BTreeSet::new();
                    for m in re.find_iter(hay) {
                        let mut it = hay[m.range()].chars();
                        match (it.next(), it.next()) {
                            (Some(ch), None) => {
                                got.insert(ch as u32);
                            }
                            _ => return Verdict::Fail(format!("/{}/{}: a class matched something other than one character at {}", show(&pat), f, m.start())),
                        }
                    }
                    for ch in hay.chars() {
                        let x = ch as u32;
                        let want = canon_set.contains(&crate::uni::canon(x, uni)) != neg;
                        if want != got.contains(&x) {
                            return Verdict::Fail(format!(
                                "/{}/{}: U+{:04X} {} but canonical equivalence ({}) says it {}",
                                show(&pat),
                                f,
                                x,
                                if want { "is not matched" } else { "is matched" },
                                if uni { "simple case folding" } else { "legacy upper-casing" },
                                if want { "belongs to the class" } else { "does not" }
                            ));
                        }
                    }
                    n += 1;
                }
            }
        }
    }
    l.add("icase_intervals_checked", n);
    Verdict::Pass { nontrivial: true }
}

pub static V_ISWEEP: Variant = Variant { name: "icase_interval_sweep", choice_len: 1, gen: gen_isweep, check: check_isweep };
pub static V_CLASS: Variant = Variant { name: "class_vs_reference", choice_len: 400, gen: gen_class_case, check: check_class };
pub static V_VSLICE: Variant = Variant { name: "exhaustive_v_depth2", choice_len: 1, gen: gen_vslice, check: check_class };
pub static V_RAW: Variant = Variant { name: "annex_b_spellings", choice_len: 100, gen: gen_raw_class_case, check: check_class };
pub static V_LAWS: Variant = Variant { name: "set_laws", choice_len: 400, gen: gen_laws, check: check_laws };
pub static V_SWEEP: Variant = Variant { name: "fixed_set_sweeps", choice_len: 1, gen: gen_sweep, check: check_sweep };

pub fn variants() -> Vec<&'static Variant> {
    vec![&V_CLASS, &V_RAW, &V_LAWS, &V_SWEEP, &V_VSLICE, &V_ISWEEP, &V_BSLICE]
}

pub fn run(ctx: &Ctx) -> i32 {
    esref::selftest::ensure();
    ctx.run_list(&V_SWEEP, &sweep_cases());
    ctx.run_list(&V_VSLICE, v_slice());
    ctx.run_list(&V_BSLICE, bracket_slice());
    ctx.run_list(&V_ISWEEP, &isweep_cases());
    ctx.run_variant(&V_CLASS, ctx.scale(150_000, 2_500_000));
    ctx.run_variant(&V_RAW, ctx.scale(150_000, 2_500_000));
    ctx.run_variant(&V_LAWS, ctx.scale(100_000, 1_500_000));
    ctx.finish(
        "exploration",
        "(00) EVERY interval of 1..4 code points that starts or ends at a cased code point (one whose legacy or Unicode canonical form differs, or that is such a form), as [lo-hi] and [^lo-hi] under i, iu and iv, run over all cased code points and their +-4 neighbours and compared with the canonical-equivalence closure; (0a) bounded-exhaustive: ALL bracket contents of up to 3 tokens from {a, b, A, -, \\-, \\d, \\w, \\W, \\s, ^, \\b, \\B, \\], [, \\c, \\1}, plain and negated, under -, i, u, iu (35k classes; validity and membership of 25 probes, Annex B range rules included); (0) bounded-exhaustive: ALL v-mode expressions of depth <= 2 (union / && / -- of two operands, and of such an expression with an operand on either side) over 13 operands {a, b, A, a-b, \\d, \\w, \\W, \\q{ab}, \\q{a|bc}, \\q{}, \\q{ab|AB|b}, [aB], [^a]}, outer negation where the grammar allows it, flags v and iv, each probed with 21 fixed strings. (1) class expressions: legacy/u brackets (chars, ranges, class escapes, \\p) and v-mode expression trees to depth 3 (union / && / --, nested and negated nested classes, \\q{} with 0-3 strings of length 0-3, \\p), with and without i, outer negation, over themed alphabets incl. interval stress points (0, 7F/80, D7FF/E000, 10FFFF); /^E$/ is probed with every mentioned character, its neighbours, its case partners, 26 decoys from every plane, every \\q string with its prefixes / extensions / case variants, and the empty string; oracle = the reference model's set semantics (opt and no_opt pipelines). (2) the same for raw Annex B spellings ([a-\\d], [--a], [\\c1], [\\b], legacy octal...). (3) metamorphic set laws on generated v-mode operands (commutativity, A--B = A&&[^B], [[A]] = [A], double complement, De Morgan) judged on the probes with no oracle. (4) EXHAUSTIVE sweeps over all 1,112,064 scalar values of \\d \\D \\w \\W \\s \\S, the same inside [..] and [^..], '.', [^], unions, and \\b/\\B next to every character, for flags {-,u,v,s,m} against sets written out from the spec. Non-trivial = class with >= 2 operators/escapes having both a member and a non-member among the probes.",
        &["esref's class evaluator and Unicode data (V8/ICU export, std) are the trusted base", "properties of strings are not evaluated by the reference (C11 covers them)"],
    )
}
