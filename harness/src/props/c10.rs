//! C10: case-insensitive matching is the canonical-form relation (simple case folding with u/v, legacy upper-casing otherwise).

use super::sweep::*;
use crate::drv::*;
use crate::esref;
use crate::esref::cpset::CpSet;
use crate::esref::udata;
use crate::pat::*;
use crate::run::*;
use crate::src::Src;
use serde_json::json;
use std::collections::BTreeSet;
use std::sync::OnceLock;

fn mk(p: String, f: &str, x: serde_json::Value) -> Case {
    Case { pat: p.chars().map(|c| c as u32).collect(), flags: f.to_string(), hay: String::new(), hay16: vec![], start: 0, x }
}

/// code points that are in a non-trivial class of either rule according to the oracle, or that the engine's own
/// canonicalisation moves (hook): every code point either side considers case-sensitive.
fn interesting() -> &'static Vec<u32> {
    static V: OnceLock<Vec<u32>> = OnceLock::new();
    V.get_or_init(|| {
        let mut s: BTreeSet<u32> = BTreeSet::new();
        for unicode in [false, true] {
            for (c, k) in udata::nonid_canon(unicode) {
                s.insert(*c);
                s.insert(*k);
            }
        }
        for c in 0..=0x10FFFFu32 {
            if char::from_u32(c).is_none() {
                continue;
            }
            for unicode in [false, true] {
                let f = regress::verif::fold_code_point(c, unicode);
                if f != c {
                    s.insert(c);
                    if char::from_u32(f).is_some() {
                        s.insert(f);
                    }
                }
            }
        }
        s.into_iter().filter(|c| char::from_u32(*c).is_some()).collect()
    })
}

// ---- (1) literal, pattern side and (3) classes: single-character patterns swept over all scalar values

/// spelling of a code point that is valid in every mode
fn esc(c: u32) -> String {
    if c <= 0xFFFF {
        format!("\\u{:04X}", c)
    } else {
        char::from_u32(c).map(|ch| ch.to_string()).unwrap_or_default()
    }
}

fn sweep_cases(tier: Tier) -> Vec<Case> {
    let mut v = vec![];
    let iflags = ["i", "iu", "iv"];
    // class escapes and property escapes, as atoms and inside brackets, negated both ways
    let atoms = [
        "\\w", "\\W", "\\d", "\\D", "\\s", "\\S", "[\\w]", "[^\\w]", "[\\W]", "[^\\W]", "[\\d]", "[^\\D]", "[\\s]", "[^\\S]", "[\\w\\W]", "[^\\w\\W]", ".", "[^]", "[a-z]", "[^a-z]", "[A-Z]", "[k]", "[^k]",
        "[s]", "[^s]", "[\\u017F]", "[^\\u017F]", "[\\u212A]", "[^\\u212A]", "[a-z\\u017F]", "[\\u0130]", "[\\u0131]", "[\\u00DF]", "[\\u1E9E]", "[\\u03C2]", "[\\u03A3-\\u03C3]", "[^\\u03C3]",
    ];
    for f in iflags {
        for a in atoms {
            v.push(mk(a.to_string(), f, json!({"kind": "sweep"})));
        }
    }
    for f in ["iu", "iv"] {
        for a in ["\\p{Lu}", "\\P{Lu}", "[\\p{Lu}]", "[^\\p{Lu}]", "[\\P{Lu}]", "[^\\P{Lu}]", "\\p{Ll}", "\\P{Ll}", "\\p{Lt}", "[^\\p{Lt}]", "\\p{Lowercase}", "\\P{Uppercase}", "\\p{Script=Greek}", "\\P{Script=Greek}", "\\p{ASCII}", "\\P{ASCII}", "[^\\p{ASCII}]", "\\p{Cased}", "\\P{Cased}"] {
            v.push(mk(a.to_string(), f, json!({"kind": "sweep"})));
        }
    }
    for a in ["[\\w--[a-z]]", "[\\w&&\\p{Lu}]", "[\\p{Lu}--[A-Z]]", "[^\\p{Lu}--[A-Z]]", "[[^\\p{Ll}]&&\\w]", "[\\W--\\p{L}]", "[\\q{k}\\q{s}]", "[^\\q{k}\\q{S}]", "[\\p{L}&&[^\\p{Lu}]]"] {
        v.push(mk(a.to_string(), "iv", json!({"kind": "sweep"})));
    }
    // blocks: [\u{a}-\u{b}] over the whole code space (closure of every block), and a negated sample
    let step = 0x100;
    let mut a = 0u32;
    while a <= 0x10FFFF {
        let b = (a + step - 1).min(0x10FFFF);
        if !(a >= 0xD800 && b <= 0xDFFF) {
            // quick tier: every block that contains an interesting code point (the others have trivial closures and are
            // covered by the negated sample); thorough: all blocks
            let hot = interesting().iter().any(|c| *c >= a && *c <= b);
            if hot || tier == Tier::Thorough {
                for f in ["i", "iu"] {
                    v.push(mk(format!("[{}-{}]", esc(a), esc(b)), f, json!({"kind": "sweep"})));
                }
                if tier == Tier::Thorough || (a / step) % 8 == 0 {
                    v.push(mk(format!("[{}-{}]", esc(a), esc(b)), "iv", json!({"kind": "sweep"})));
                    v.push(mk(format!("[^{}-{}]", esc(a), esc(b)), "iu", json!({"kind": "sweep"})));
                    v.push(mk(format!("[^{}-{}]", esc(a), esc(b)), "i", json!({"kind": "sweep"})));
                }
            }
        }
        a += step;
    }
    // literals: every interesting code point as a bare literal (compile-time expansion path), both rules;
    // thorough: additionally every 17th uninteresting one
    for c in interesting() {
        for f in ["i", "iu"] {
            v.push(mk(esc_lit(*c), f, json!({"kind": "sweep", "lit": c})));
        }
    }
    if tier == Tier::Thorough {
        let mut c = 0x80u32;
        while c <= 0x10FFFF {
            if char::from_u32(c).is_some() {
                v.push(mk(esc_lit(c), "iu", json!({"kind": "sweep", "lit": c})));
                v.push(mk(esc_lit(c), "i", json!({"kind": "sweep", "lit": c})));
            }
            c += 17;
        }
    }
    v
}

/// a literal spelled so that it is valid in every mode (the character itself, escaped if it is a syntax character)
fn esc_lit(c: u32) -> String {
    let ch = char::from_u32(c).unwrap_or('a');
    if is_syntax_char(c) || ch == '/' {
        format!("\\{}", ch)
    } else {
        ch.to_string()
    }
}

fn gen_sweep(src: &mut Src, t: Tier) -> Case {
    let v = sweep_cases(t);
    v[(src.raw() as usize).min(v.len() - 1)].clone()
}

fn check_sweep(case: &Case, l: &mut Local) -> Verdict {
    let fl = Fl::parse(&case.flags);
    let want = match expected_set(&case.pat, fl) {
        Ok(w) => w,
        Err(e) => return Verdict::Fail(format!("reference cannot evaluate /{}/{}: {}", show(&case.pat), case.flags, e)),
    };
    for (pike, no_opt) in [(false, false), (false, true)] {
        let got = match sweep_runs(&case.pat, fl, pike, no_opt) {
            Ok(g) => g,
            Err(e) => return Verdict::Fail(format!("/{}/{} does not compile: {}", show(&case.pat), case.flags, e)),
        };
        if got != want {
            return Verdict::Fail(format!("/{}/{} over all scalar values ({}): {}", show(&case.pat), case.flags, if no_opt { "no_opt" } else { "opt" }, describe_diff(&got, &want)));
        }
    }
    l.add("code_points_swept", 2 * 1_112_064);
    // non-trivial: the case relation actually changes the set
    let plain = expected_set(&case.pat, Fl { i: false, ..fl }).unwrap_or_default();
    Verdict::Pass { nontrivial: plain != want }
}

// ---- (2) text side: backreferences fold at match time; and the engine's own fold function (hook) respects the classes

fn pair_cases() -> Vec<Case> {
    // one case per (rule, chunk of classes)
    let mut out = vec![];
    for (unicode, f) in [(false, "is"), (true, "isu"), (true, "isv")] {
        let mut classes: std::collections::BTreeMap<u32, Vec<u32>> = std::collections::BTreeMap::new();
        for (c, k) in udata::nonid_canon(unicode) {
            classes.entry(*k).or_insert_with(|| vec![*k]).push(*c);
        }
        let cl: Vec<Vec<u32>> = classes.into_values().collect();
        for chunk in cl.chunks(64) {
            out.push(mk("^(.)\\1$".to_string(), f, json!({"kind": "pairs", "classes": chunk})));
        }
    }
    out
}

fn gen_pairs(src: &mut Src, _t: Tier) -> Case {
    let v = pair_cases();
    v[(src.raw() as usize).min(v.len() - 1)].clone()
}

fn check_pairs(case: &Case, l: &mut Local) -> Verdict {
    let fl = Fl::parse(&case.flags);
    let unicode = fl.unicode();
    let res: Vec<regress::Regex> = [false, true].iter().filter_map(|no_opt| compile(&case.pat, fl, *no_opt).ok()).collect();
    if res.len() != 2 {
        return Verdict::Fail("backreference probe pattern does not compile".into());
    }
    let classes: Vec<Vec<u32>> = case.x["classes"].as_array().map(|a| a.iter().map(|c| c.as_array().map(|v| v.iter().filter_map(|x| x.as_u64().map(|n| n as u32)).collect()).unwrap_or_default()).collect()).unwrap_or_default();
    let decoys: Vec<u32> = vec![0x61, 0x41, 0x6B, 0x4B, 0x212A, 0x73, 0x53, 0x17F, 0xDF, 0x1E9E, 0x3C3, 0x3C2, 0x3A3, 0x131, 0x130, 0x69, 0x49, 0x1C4, 0x1C5, 0x1C6, 0x3B9, 0x345, 0x1FBE, 0x399];
    let mut n = 0u64;
    for cls in &classes {
        let mut members: Vec<u32> = cls.iter().copied().filter(|c| char::from_u32(*c).is_some()).collect();
        members.sort();
        let mut others = decoys.clone();
        // neighbours of the members are good decoys
        for m in &members {
            others.push(m + 1);
            others.push(m.wrapping_sub(1));
        }
        for a in &members {
            for b in members.iter().chain(others.iter()) {
                if char::from_u32(*b).is_none() {
                    continue;
                }
                let want = udata::canon(*a, unicode) == udata::canon(*b, unicode);
                let h = cps_to_string(&[*a, *b]);
                for re in &res {
                    for eng in [Engine::Bt, Engine::Pike] {
                        let got = match first_with(re, eng, Enc::Utf8, &h, 0, 100_000).0 {
                            Out::Ms(v) => !v.is_empty(),
                            _ => continue,
                        };
                        n += 1;
                        if got != want {
                            return Verdict::Fail(format!(
                                "/^(.)\\1$/{} on U+{:04X} U+{:04X} ({:?}): {} but the canonical forms are {}",
                                case.flags,
                                a,
                                b,
                                eng,
                                if got { "matches" } else { "does not match" },
                                if want { "equal" } else { "different" }
                            ));
                        }
                    }
                }
            }
        }
    }
    l.add("ordered_pairs_checked", n);
    Verdict::Pass { nontrivial: true }
}

fn check_hook(_case: &Case, l: &mut Local) -> Verdict {
    // the engine's canonicalisation must be constant on every oracle class and separate different classes
    for unicode in [false, true] {
        let mut seen: std::collections::HashMap<u32, u32> = std::collections::HashMap::new(); // engine fold value -> oracle class representative
        for c in 0..=0x10FFFFu32 {
            if char::from_u32(c).is_none() {
                continue;
            }
            let f = regress::verif::fold_code_point(c, unicode);
            let k = udata::canon(c, unicode);
            match seen.get(&f) {
                Some(prev) if *prev != k => {
                    return Verdict::Fail(format!("engine canonical form U+{:04X} (unicode={}) is shared by code points of two different classes (one of them U+{:04X})", f, unicode, c));
                }
                None => {
                    seen.insert(f, k);
                }
                _ => {}
            }
        }
        // constant on classes
        let mut by_class: std::collections::HashMap<u32, u32> = std::collections::HashMap::new();
        for c in 0..=0x10FFFFu32 {
            if char::from_u32(c).is_none() {
                continue;
            }
            let f = regress::verif::fold_code_point(c, unicode);
            let k = udata::canon(c, unicode);
            match by_class.get(&k) {
                Some(prev) if *prev != f => {
                    return Verdict::Fail(format!("U+{:04X} is in the class of U+{:04X} (unicode={}) but the engine canonicalises them differently (U+{:04X} vs U+{:04X})", c, k, unicode, f, prev));
                }
                None => {
                    by_class.insert(k, f);
                }
                _ => {}
            }
        }
        l.add("code_points_checked_via_hook", 1_112_064);
    }
    Verdict::Pass { nontrivial: true }
}

fn gen_hook(_src: &mut Src, _t: Tier) -> Case {
    mk(String::new(), "", json!({"kind": "hook"}))
}

// ---- (4) random composition under i with the case-special alphabets (C01's oracle)

fn gen_compose(src: &mut Src, tier: Tier) -> Case {
    let fl = Fl { i: true, ..Fl::gen(src) };
    let alpha: Vec<u32> = src
        .pick(&[
            &[0x73u32, 0x53, 0x17F, 0x6B, 0x4B, 0x212A][..],
            &[0xDF, 0x1E9E, 0x1C5, 0x1C4, 0x1C6, 0x3C3, 0x3C2, 0x3A3][..],
            &[0x131, 0x130, 0x69, 0x49, 0x3B9, 0x345, 0x1FBE, 0x399][..],
            &[0x3B1, 0x391, 0x1F80, 0x1F88, 0xB5, 0x3BC, 0x39C][..],
            &[0x10400, 0x10428, 0x16E40, 0x16E60, 0x1E900, 0x1E922, 0x61][..],
            &[0x61, 0x41, 0x5B, 0x7B, 0x40, 0x60, 0xE9, 0xC9][..],
        ])
        .to_vec();
    let mut cfg = GenCfg::full(fl, alpha.clone());
    cfg.max_depth = 3;
    let node = gen_pattern(src, &cfg);
    let pat = Printer::print(&node, fl.mode);
    let hay = if src.chance(1, 2) { witness_hay(src, &node, fl, &alpha, 2) } else { gen_hay(src, &alpha, if tier == Tier::Quick { 8 } else { 12 }) };
    let start = gen_start(src, &hay);
    Case { pat, flags: fl.text(), hay, hay16: vec![], start, x: serde_json::Value::Null }
}

pub static V_SWEEP: Variant = Variant { name: "icase_sweeps", choice_len: 1, gen: gen_sweep, check: check_sweep };
pub static V_PAIRS: Variant = Variant { name: "backreference_pairs", choice_len: 1, gen: gen_pairs, check: check_pairs };
pub static V_HOOK: Variant = Variant { name: "engine_fold_vs_classes", choice_len: 1, gen: gen_hook, check: check_hook };
pub static V_COMPOSE: Variant = Variant { name: "icase_composition", choice_len: 400, gen: gen_compose, check: super::c01::check };

// ---- (4) \b and \B with the tested character on the LEFT and on the RIGHT of the position, every scalar value,
// every flag set that changes the word-character set, both executors

const WB_BLOCK: u32 = 0x1000;

fn wb_cases() -> Vec<Case> {
    let mut out = vec![];
    for b in 0..0x110000 / WB_BLOCK {
        for f in ["", "i", "u", "iu", "iv"] {
            out.push(mk(String::new(), f, json!({"kind": "wb", "block": b})));
        }
    }
    out
}

fn gen_wb(src: &mut Src, _t: Tier) -> Case {
    let v = wb_cases();
    v[(src.raw() as usize).min(v.len() - 1)].clone()
}

fn check_wb(case: &Case, l: &mut Local) -> Verdict {
    let fl = Fl::parse(&case.flags);
    let b = case.x["block"].as_u64().unwrap_or(0) as u32;
    let w = udata::basic_word();
    // ES WordCharacters: the basic word characters, plus - under i together with u/v - every character whose
    // canonical form is the canonical form of one of them (U+017F, U+212A)
    let is_word = |c: u32| w.contains(c) || (fl.i && fl.unicode() && w.contains(udata::canon(c, true)));
    // haystack: -c-c-c-... (dash = non-word): a boundary exists at both ends of c exactly when c is a word character
    let mut h = String::from("-");
    let mut want_b: Vec<(usize, usize)> = vec![];
    let mut want_nb: Vec<(usize, usize)> = vec![(0, 0)];
    for c in (b * WB_BLOCK..(b + 1) * WB_BLOCK).filter_map(char::from_u32) {
        let s = h.len();
        h.push(c);
        let e = h.len();
        h.push('-');
        if is_word(c as u32) {
            want_b.push((s, s));
            want_b.push((e, e));
        } else {
            want_nb.push((s, s));
            want_nb.push((e, e));
        }
    }
    want_nb.push((h.len(), h.len()));
    if h.len() == 1 {
        return Verdict::Skip("surrogate_block");
    }
    for (p, want) in [("\\b", &want_b), ("\\B", &want_nb)] {
        let cps: Vec<u32> = p.chars().map(|c| c as u32).collect();
        for no_opt in [false, true] {
            let re = match compile(&cps, fl, no_opt) {
                Ok(r) => r,
                Err(e) => return Verdict::Fail(format!("/{}/{} does not compile: {}", p, case.flags, e)),
            };
            for eng in [Engine::Bt, Engine::Pike] {
                let got: Vec<(usize, usize)> = match find_all(&re, eng, Enc::Utf8, &h, 0, 3 * WB_BLOCK as usize + 8, u64::MAX) {
                    Out::Ms(v) => v.iter().map(|m| (m.s, m.e)).collect(),
                    o => return Verdict::Fail(format!("/{}/{} ({:?}): {}", p, case.flags, eng, o.show())),
                };
                if &got != want {
                    let bad = got.iter().find(|x| !want.contains(x)).or_else(|| want.iter().find(|x| !got.contains(x))).copied().unwrap_or((0, 0));
                    let near: String = h[..bad.0].chars().rev().take(1).chain(h[bad.0..].chars().take(1)).map(|c| format!("U+{:04X} ", c as u32)).collect();
                    return Verdict::Fail(format!("/{}/{} ({:?}, {}) on -c-c-...: position {} (between {}) is {} but the ES word-character set says otherwise", p, case.flags, eng, if no_opt { "no_opt" } else { "opt" }, bad.0, near.trim(), if got.contains(&bad) { "reported" } else { "not reported" }));
                }
            }
        }
    }
    l.add("word_boundary_positions_checked", 8 * want_b.len() as u64 + 8 * want_nb.len() as u64);
    Verdict::Pass { nontrivial: !want_b.is_empty() }
}

pub static V_WB: Variant = Variant { name: "word_boundary_sweep", choice_len: 1, gen: gen_wb, check: check_wb };

pub fn variants() -> Vec<&'static Variant> {
    vec![&V_SWEEP, &V_PAIRS, &V_HOOK, &V_COMPOSE, &V_WB]
}

pub fn run(ctx: &Ctx) -> i32 {
    esref::selftest::ensure();
    let _ = CpSet::new();
    ctx.run_list(&V_HOOK, &[mk(String::new(), "", json!({"kind": "hook"}))]);
    ctx.run_list(&V_PAIRS, &pair_cases());
    ctx.run_list(&V_SWEEP, &sweep_cases(ctx.tier));
    ctx.run_list(&V_WB, &wb_cases());
    ctx.run_variant(&V_COMPOSE, ctx.scale(300_000, 5_000_000));
    ctx.agg.lock().unwrap().exhaustive = true;
    ctx.finish(
        "exploration",
        "WORD BOUNDARIES: \\b and \\B on -c-c-c-... for EVERY scalar value c (the tested character on the left and on the right of the position) under -, i, u, iu, iv, both executors, both pipelines; EXHAUSTIVE over code points, both rules (legacy upper-casing without u/v; Unicode 17 simple case folding with u/v): (1) every code point either side regards as case-sensitive (oracle classes + everything the engine's own fold moves, ~4.6k) as a bare literal /c/i and /c/iu, run as (?:c)+ over a haystack of ALL 1,112,064 scalar values - the matched set must be exactly the oracle class (compile-time expansion path); (2) /^(.)\\1$/is{,u,v} on every ordered pair inside every non-trivial class and against neighbours/decoys, both executors and pipelines (match-time folding), plus - through the hook - the engine's canonical form must be constant on each oracle class and distinct across classes for all 1.1M code points; (3) classes: [\\u{a}-\\u{b}] for every 256-block containing a case-sensitive code point (all 4352 blocks in the thorough tier) under i and iu, negated and v samples, and \\w \\W \\d \\D \\s \\S . [^] \\p{Lu} \\P{Lu} [^\\p{Lu}] [\\P{Lu}] ... as atoms and inside brackets under i / iu / iv, each swept over all scalar values against the set the reference model derives from the spec's definitions (opt and no_opt); (4) random composition under i over case-special alphabets judged by the reference model. Non-trivial sweep = the i flag changes the denoted set.",
        &["oracle: std full upper-casing (Unicode 17) + the ES legacy rule; simple case folding classes exported from V8/ICU 78 (oracle/scf17_classes.txt), block-closure-verified at export time", "hook: regress::verif::fold_code_point"],
    )
}
