//! C11: Unicode property escapes denote exactly the Unicode 17 sets (oracle: V8/ICU 78 export, /verif/oracle).

use super::sweep::*;
use crate::drv::*;
use crate::esref::udata;
use crate::pat::*;
use crate::run::*;
use crate::src::Src;
use serde_json::json;
use std::sync::OnceLock;

fn mk(p: &str, f: &str, x: serde_json::Value) -> Case {
    Case { pat: p.chars().map(|c| c as u32).collect(), flags: f.to_string(), hay: String::new(), hay16: vec![], start: 0, x }
}

fn names_sorted() -> Vec<(String, usize)> {
    let db = udata::propdb();
    let mut v: Vec<(String, usize)> = db.names.iter().map(|(k, v)| (k.clone(), *v)).collect();
    v.sort();
    v
}

fn sweep_cases(tier: Tier) -> &'static Vec<Case> {
    static Q: OnceLock<Vec<Case>> = OnceLock::new();
    static T: OnceLock<Vec<Case>> = OnceLock::new();
    let build = move || {
        let mut out = vec![];
        let mut seen_neg = std::collections::HashSet::new();
        let mut seen_pike = std::collections::HashSet::new();
        for (name, id) in names_sorted() {
            for f in ["u", "v"] {
                out.push(mk(&format!("\\p{{{}}}", name), f, json!({"kind": "sweep", "set": id})));
                // \P once per distinct set and flag in the quick tier, for every name in the thorough tier
                if tier == Tier::Thorough || seen_neg.insert((id, f)) {
                    out.push(mk(&format!("\\P{{{}}}", name), f, json!({"kind": "sweep", "set": id, "neg": true})));
                }
            }
            // the PikeVM once per distinct set in the quick tier, for every name in the thorough tier
            if tier == Tier::Quick && seen_pike.insert(id) {
                out.push(mk(&format!("\\p{{{}}}", name), "u", json!({"kind": "sweep", "set": id, "pike": true})));
            }
            if tier == Tier::Thorough {
                out.push(mk(&format!("\\p{{{}}}", name), "u", json!({"kind": "sweep", "set": id, "pike": true})));
                out.push(mk(&format!("\\p{{{}}}", name), "v", json!({"kind": "sweep", "set": id, "no_opt": true})));
                out.push(mk(&format!("[^\\p{{{}}}]", name), "u", json!({"kind": "sweep", "set": id, "neg": true})));
            }
        }
        out
    };
    if tier == Tier::Quick {
        Q.get_or_init(build)
    } else {
        T.get_or_init(build)
    }
}

fn gen_sweep_q(src: &mut Src, _t: Tier) -> Case {
    let v = sweep_cases(Tier::Quick);
    v[(src.raw() as usize).min(v.len() - 1)].clone()
}

fn check_sweep(case: &Case, l: &mut Local) -> Verdict {
    let fl = Fl::parse(&case.flags);
    let id = case.x["set"].as_u64().unwrap_or(0) as usize;
    let neg = case.x["neg"].as_bool().unwrap_or(false);
    let pike = case.x["pike"].as_bool().unwrap_or(false);
    let no_opt = case.x["no_opt"].as_bool().unwrap_or(false);
    let db = udata::propdb();
    let base = db.sets[id].intersect(&scalars());
    let want = if neg { scalars().subtract(&base) } else { base };
    let got = match sweep_runs(&case.pat, fl, pike, no_opt) {
        Ok(g) => g,
        Err(e) => return Verdict::Fail(format!("/{}/{} is a valid ECMAScript property escape but does not compile: {}", show(&case.pat), case.flags, e)),
    };
    if got != want {
        return Verdict::Fail(format!("/{}/{} over all scalar values: {}", show(&case.pat), case.flags, describe_diff(&got, &want)));
    }
    l.add("cells_checked", 1_112_064);
    Verdict::Pass { nontrivial: !want.is_empty() && want != scalars() }
}

// ---- names that must be rejected

fn reject_cases(tier: Tier) -> Vec<Case> {
    let dir = format!("{}/oracle", verif_dir());
    let rej = std::fs::read_to_string(format!("{}/v8_rejected.txt", dir)).unwrap_or_default();
    let db = udata::propdb();
    let mut out = vec![];
    for (i, e) in rej.lines().enumerate() {
        let e = e.trim();
        if e.is_empty() {
            continue;
        }
        if tier == Tier::Quick && i % 3 != 0 && e.contains('=') {
            // the quick tier takes every lone name and a third of the Name=Value forms
            continue;
        }
        for f in ["u", "v"] {
            out.push(mk(&format!("\\p{{{}}}", e), f, json!({"kind": "reject"})));
        }
    }
    // systematic perturbations of accepted names: valid only if the perturbed spelling is itself an accepted name
    let mut perturbed = std::collections::BTreeSet::new();
    for (name, _) in names_sorted() {
        let variants = [
            name.to_lowercase(),
            name.to_uppercase(),
            name.replace('_', ""),
            name.replace('_', " "),
            format!(" {}", name),
            format!("{} ", name),
            format!("Is{}", name),
            format!("In{}", name),
            name.replace('=', " = "),
            name.replace('=', ":"),
            format!("{}=", name),
            format!("^{}", name),
        ];
        for v in variants {
            if v != name && !db.names.contains_key(&v) && !db.vonly.contains(&v) {
                perturbed.insert(v);
            }
        }
    }
    for (i, v) in perturbed.into_iter().enumerate() {
        if tier == Tier::Quick && i % 4 != 0 {
            continue;
        }
        out.push(mk(&format!("\\p{{{}}}", v), "u", json!({"kind": "reject"})));
        out.push(mk(&format!("\\P{{{}}}", v), "v", json!({"kind": "reject"})));
    }
    // malformed escapes and misplaced properties of strings
    for (p, f) in [
        ("\\p", "u"), ("\\p{", "u"), ("\\p{}", "u"), ("\\p{Lu", "u"), ("\\pL", "u"), ("\\p{=Lu}", "u"), ("\\p{gc=}", "u"), ("\\p{gc=Lu=Lu}", "u"), ("\\p{Lu}{", "u"),
        ("\\p{RGI_Emoji}", "u"), ("\\P{RGI_Emoji}", "v"), ("[^\\p{RGI_Emoji}]", "v"), ("\\p{Basic_Emoji}", "u"), ("\\P{Basic_Emoji}", "v"), ("\\p{Emoji_Keycap_Sequence}", "u"),
        ("\\P{Emoji_Keycap_Sequence}", "v"), ("[^\\p{RGI_Emoji_Flag_Sequence}]", "v"), ("\\p{sc=RGI_Emoji}", "v"), ("\\p{RGI_Emoji=Yes}", "v"), ("[^[\\p{RGI_Emoji_Tag_Sequence}]]", "v"),
    ] {
        out.push(mk(p, f, json!({"kind": "reject"})));
    }
    out
}

fn gen_reject(src: &mut Src, t: Tier) -> Case {
    let v = reject_cases(t);
    v[(src.raw() as usize).min(v.len() - 1)].clone()
}

fn check_reject(case: &Case, _l: &mut Local) -> Verdict {
    let fl = Fl::parse(&case.flags);
    match compile(&case.pat, fl, false) {
        Ok(_) => Verdict::Fail(format!("/{}/{} compiles, but the name/value is not in the ECMAScript property tables", show(&case.pat), case.flags)),
        Err(e) if is_infra_err(&e) => Verdict::Fail(format!("compile: {}", e)),
        Err(_) => Verdict::Pass { nontrivial: true },
    }
}

// ---- properties of strings: two-sided membership on candidates (regress' own strings + structurally generated ones)

const SPROPS: [&str; 7] = ["Basic_Emoji", "Emoji_Keycap_Sequence", "RGI_Emoji_Flag_Sequence", "RGI_Emoji_Modifier_Sequence", "RGI_Emoji_Tag_Sequence", "RGI_Emoji_ZWJ_Sequence", "RGI_Emoji"];

fn string_cases() -> Vec<Case> {
    let txt = std::fs::read_to_string(format!("{}/oracle/v8_strings.tsv", verif_dir())).unwrap_or_default();
    let mut out = vec![];
    let mut chunk: Vec<serde_json::Value> = vec![];
    for line in txt.lines() {
        if line.starts_with('#') || line.trim().is_empty() {
            continue;
        }
        let mut it = line.splitn(2, '\t');
        let k = it.next().unwrap_or("");
        let bits = it.next().unwrap_or("").trim();
        let cps: Vec<u32> = k.split_whitespace().filter_map(|x| u32::from_str_radix(x, 16).ok()).collect();
        chunk.push(json!({"s": cps, "bits": bits}));
        if chunk.len() == 200 {
            out.push(mk("", "v", json!({"kind": "strings", "cands": std::mem::take(&mut chunk)})));
        }
    }
    if !chunk.is_empty() {
        out.push(mk("", "v", json!({"kind": "strings", "cands": chunk})));
    }
    out
}

fn gen_strings(src: &mut Src, _t: Tier) -> Case {
    let v = string_cases();
    v[(src.raw() as usize).min(v.len() - 1)].clone()
}

fn check_strings(case: &Case, l: &mut Local) -> Verdict {
    static RES: OnceLock<Vec<Result<regress::Regex, String>>> = OnceLock::new();
    let res = RES.get_or_init(|| {
        SPROPS
            .iter()
            .map(|p| {
                let pat: Vec<u32> = format!("^\\p{{{}}}$", p).chars().map(|c| c as u32).collect();
                compile(&pat, Fl::parse("v"), false)
            })
            .collect()
    });
    let mut members = 0;
    for c in case.x["cands"].as_array().cloned().unwrap_or_default() {
        let cps: Vec<u32> = c["s"].as_array().map(|a| a.iter().filter_map(|v| v.as_u64().map(|n| n as u32)).collect()).unwrap_or_default();
        let bits = c["bits"].as_str().unwrap_or("").as_bytes().to_vec();
        let s = cps_to_string(&cps);
        for (i, p) in SPROPS.iter().enumerate() {
            let re = match &res[i] {
                Ok(r) => r,
                Err(e) => return Verdict::Fail(format!("/^\\p{{{}}}$/v does not compile: {}", p, e)),
            };
            let want = bits.get(i) == Some(&b'1');
            regress::verif::set_fuel(u64::MAX);
            let got = re.find(&s).is_some();
            if got != want {
                return Verdict::Fail(format!("\\p{{{}}} (v): string {} is {} per Unicode 17 (V8/ICU), regress says {}", p, show(&cps), if want { "a member" } else { "not a member" }, if got { "member" } else { "not a member" }));
            }
            if want {
                members += 1;
            }
        }
        l.add("string_membership_cells", 7);
    }
    Verdict::Pass { nontrivial: members > 0 }
}

// ---- longest-first matching of string properties and aliases denote the same set (already covered by the sweeps)

fn misc_cases() -> Vec<Case> {
    vec![
        // a member that is a prefix of another member: the longer one wins
        mk("\\p{RGI_Emoji}", "v", json!({"kind": "longest", "hay": [0x1F468, 0x200D, 0x1F469, 0x200D, 0x1F467], "end_cps": 5})),
        mk("\\p{RGI_Emoji}", "v", json!({"kind": "longest", "hay": [0x1F1FA, 0x1F1F8], "end_cps": 2})),
        mk("\\p{RGI_Emoji}", "v", json!({"kind": "longest", "hay": [0x31, 0xFE0F, 0x20E3], "end_cps": 3})),
        mk("\\p{RGI_Emoji}", "v", json!({"kind": "longest", "hay": [0x1F44D, 0x1F3FD], "end_cps": 2})),
        mk("[\\p{RGI_Emoji}--\\p{RGI_Emoji_Flag_Sequence}]", "v", json!({"kind": "longest", "hay": [0x1F1FA, 0x1F1F8], "end_cps": 0})),
        mk("[\\p{RGI_Emoji}&&\\p{RGI_Emoji_Flag_Sequence}]", "v", json!({"kind": "longest", "hay": [0x1F1FA, 0x1F1F8], "end_cps": 2})),
    ]
}

fn gen_misc(src: &mut Src, _t: Tier) -> Case {
    let v = misc_cases();
    v[(src.raw() as usize).min(v.len() - 1)].clone()
}

fn check_misc(case: &Case, _l: &mut Local) -> Verdict {
    let fl = Fl::parse(&case.flags);
    let re = match compile(&case.pat, fl, false) {
        Ok(r) => r,
        Err(e) => return Verdict::Fail(format!("does not compile: {}", e)),
    };
    let cps: Vec<u32> = case.x["hay"].as_array().map(|a| a.iter().filter_map(|v| v.as_u64().map(|n| n as u32)).collect()).unwrap_or_default();
    let want_end_cps = case.x["end_cps"].as_u64().unwrap_or(0) as usize;
    let h = cps_to_string(&cps);
    let want_end: usize = h.chars().take(want_end_cps).map(|c| c.len_utf8()).sum();
    regress::verif::set_fuel(u64::MAX);
    let got = re.find(&h).map(|m| (m.start(), m.end()));
    let want = if want_end_cps == 0 { None } else { Some((0, want_end)) };
    // for the subtraction case the single regional indicator is not an RGI emoji either: no match at all
    if got != want {
        return Verdict::Fail(format!("/{}/v on {}: match {:?}, expected {:?} (longest member first)", show(&case.pat), show(&cps), got, want));
    }
    Verdict::Pass { nontrivial: true }
}

// ---- property escapes as members of classes: unions, complements, intersections and differences of two property
// sets (and a plain range), swept over all scalar values against set algebra on the V8 export

fn gen_comp(src: &mut Src, _t: Tier) -> Case {
    let names = names_sorted();
    let (na, a) = names[src.below(names.len() as u32) as usize].clone();
    let (nb, b) = names[src.below(names.len() as u32) as usize].clone();
    let v_mode = src.chance(1, 2);
    let form = if v_mode { src.below(10) } else { src.below(7) };
    let pa = |neg: bool, n: &str| format!("\\{}{{{}}}", if neg { 'P' } else { 'p' }, n);
    let p = match form {
        0 => format!("[{}{}]", pa(false, &na), pa(false, &nb)),
        1 => format!("[^{}{}]", pa(false, &na), pa(false, &nb)),
        2 => format!("[{}{}]", pa(true, &na), pa(false, &nb)),
        3 => format!("[^{}{}]", pa(true, &na), pa(false, &nb)),
        4 => format!("[^{}a-z]", pa(true, &na)),
        5 => format!("[a-z{}]", pa(true, &na)),
        6 => format!("[^{}{}]", pa(true, &na), pa(true, &nb)),
        7 => format!("[{}&&{}]", pa(false, &na), pa(false, &nb)),
        8 => format!("[{}--{}]", pa(false, &na), pa(false, &nb)),
        _ => format!("[^{}&&{}]", pa(true, &na), pa(false, &nb)),
    };
    mk(&p, if v_mode { "v" } else { "u" }, json!({"kind": "comp", "a": a, "b": b, "form": form}))
}

fn check_comp(case: &Case, l: &mut Local) -> Verdict {
    let fl = Fl::parse(&case.flags);
    let db = udata::propdb();
    let all = scalars();
    let a = db.sets[case.x["a"].as_u64().unwrap_or(0) as usize].intersect(&all);
    let b = db.sets[case.x["b"].as_u64().unwrap_or(0) as usize].intersect(&all);
    let az = crate::esref::cpset::CpSet::from_ranges(vec![(0x61, 0x7A)]);
    let not = |x: &crate::esref::cpset::CpSet| all.subtract(x);
    let want = match case.x["form"].as_u64().unwrap_or(0) {
        0 => a.union(&b),
        1 => not(&a.union(&b)),
        2 => not(&a).union(&b),
        3 => not(&not(&a).union(&b)),
        4 => not(&not(&a).union(&az)),
        5 => az.union(&not(&a)),
        6 => not(&not(&a).union(&not(&b))),
        7 => a.intersect(&b),
        8 => a.subtract(&b),
        _ => not(&not(&a).intersect(&b)),
    };
    let got = match sweep_runs(&case.pat, fl, false, false) {
        Ok(g) => g,
        Err(e) => return Verdict::Fail(format!("/{}/{} is valid but does not compile: {}", show(&case.pat), case.flags, e)),
    };
    if got != want {
        return Verdict::Fail(format!("/{}/{} over all scalar values: {}", show(&case.pat), case.flags, describe_diff(&got, &want)));
    }
    l.add("cells_checked", 1_112_064);
    Verdict::Pass { nontrivial: !want.is_empty() && want != all }
}

pub static V_COMP: Variant = Variant { name: "property_compositions", choice_len: 8, gen: gen_comp, check: check_comp };
pub static V_SWEEP: Variant = Variant { name: "property_sweeps", choice_len: 1, gen: gen_sweep_q, check: check_sweep };
pub static V_REJECT: Variant = Variant { name: "rejected_names", choice_len: 1, gen: gen_reject, check: check_reject };
pub static V_STRINGS: Variant = Variant { name: "string_properties", choice_len: 1, gen: gen_strings, check: check_strings };
pub static V_MISC: Variant = Variant { name: "string_property_longest_first", choice_len: 1, gen: gen_misc, check: check_misc };

pub fn variants() -> Vec<&'static Variant> {
    vec![&V_SWEEP, &V_REJECT, &V_STRINGS, &V_MISC, &V_COMP]
}

pub fn run(ctx: &Ctx) -> i32 {
    ctx.run_list(&V_SWEEP, sweep_cases(ctx.tier));
    ctx.run_list(&V_REJECT, &reject_cases(ctx.tier));
    ctx.run_list(&V_STRINGS, &string_cases());
    ctx.run_list(&V_MISC, &misc_cases());
    ctx.run_variant(&V_COMP, ctx.scale(3_000, 60_000));
    ctx.agg.lock().unwrap().exhaustive = true;
    ctx.finish(
        "exploration",
        "EXHAUSTIVE: for every property expression ECMAScript admits (1714 spellings of 367 distinct sets: binary properties, General_Category incl. bare values, Script, Script_Extensions, every alias), /(?:\\p{X})+/ under u and under v is run over a haystack holding all 1,112,064 scalar values and the matched set must equal the Unicode 17 set (oracle: V8/ICU 78 export in /verif/oracle, cross-checked against regex-syntax and std); \\P once per distinct set and flag (every spelling in the thorough tier); the PikeVM once per distinct set (thorough: every spelling, plus no_opt and [^\\p{}]). Property escapes as class members: random pairs of sets in [\\p\\p], [^\\p\\p], [\\P\\p], [^\\P\\p], [^\\P a-z], [a-z\\P], [^\\P\\P] under u and v, and [\\p&&\\p], [\\p--\\p], [^\\P&&\\p] under v, swept over all scalar values against set algebra on the export. ~8.6k names and Name=Value forms outside the ES tables (UCD properties ES does not list, Is/In prefixes, case/space/underscore variants, gc values under Script=...) and malformed or misplaced escapes must be rejected. Properties of strings: two-sided membership of 8.8k candidate strings (every string regress holds + all keycaps, 676 regional-indicator pairs, every Emoji_Modifier_Base x 5 modifiers, tag sequences, every emoji with/without U+FE0F, ZWJ shapes) against V8's verdicts; longest-first matching. Non-trivial = set neither empty nor full / a string that is a member.",
        &["oracle data exported once from V8 11.3 / ICU 78.2 (Unicode 17.0) by oracle/export_v8.js and export_strings_v8.js; SHA-256 in oracle/PROVENANCE.json", "a ZWJ sequence present in Unicode 17 but absent from both regress and the candidate generator cannot be noticed; a valid alias absent from regress, regex-syntax, the spec tables and the candidate list cannot be noticed"],
    )
}
