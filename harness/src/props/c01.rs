//! C01: the first match is the one ECMAScript pattern semantics prescribe (oracle: the reference model esref).

use super::common::*;
use crate::drv::*;
use crate::esref::{self, Found, RefErr};
use crate::pat::*;
use crate::run::*;
use crate::src::Src;

fn gen(src: &mut Src, tier: Tier) -> Case {
    gen_general(src, tier, 8, 12, no_tweak).case
}

/// themes: the sharp regions listed in DESIGN 2.5
pub fn gen_themed(src: &mut Src, tier: Tier) -> Case {
    let mut fl = Fl::gen(src);
    let alpha = gen_alphabet(src);
    let mut cfg = GenCfg::full(fl, alpha.clone());
    cfg.max_depth = 3;
    let a = |src: &mut Src, cfg: &GenCfg| Node::Lit(gen_char(src, cfg));
    let mut forced_hay: Option<String> = None;
    let node = match src.below(18) {
        17 => {
            // v-mode string set at the very start under i, on a haystack that re-spells one of its strings with
            // arbitrary members of each character's equivalence class (first bytes of the prefilter)
            fl.mode = Mode::V;
            fl.i = true;
            cfg = GenCfg::full(fl, alpha.clone());
            cfg.max_depth = 3;
            let strs: Vec<Vec<u32>> = (0..1 + src.below(3)).map(|_| (0..2 + src.below(2)).map(|_| gen_char(src, &cfg)).collect()).collect();
            let set = Node::ClassSet(Cs { neg: false, kind: CsKind::Union, ops: vec![CsOp::Q(strs.clone())] });
            let pick = src.pick(&strs).clone();
            let resp: Vec<u32> = pick
                .iter()
                .map(|c| {
                    let mut p = super::c12::partners(*c, true);
                    p.push(*c);
                    *src.pick(&p)
                })
                .collect();
            let mut h: Vec<u32> = (0..src.below(3)).map(|_| gen_char(src, &cfg)).collect();
            h.extend(resp);
            let tail = if src.chance(1, 2) { a(src, &cfg) } else { Node::Empty };
            if let Node::Lit(c) = &tail {
                h.push(*c);
            }
            forced_hay = Some(cps_to_string(&h));
            Node::Cat(vec![set, tail])
        }
        16 => {
            // a backreference at the very start whose group was captured by a lookaround: (?<=(X))\1Y, (?=(X))\1Y
            let x = a(src, &cfg);
            let y = a(src, &cfg);
            let behind = src.chance(1, 2);
            let look = Node::Look { behind, neg: false, body: Box::new(Node::Group { name: None, body: Box::new(x.clone()) }) };
            let (xc, yc) = match (&x, &y) {
                (Node::Lit(xc), Node::Lit(yc)) => (*xc, *yc),
                _ => (0x61, 0x62),
            };
            let mut h: Vec<u32> = (0..src.below(3)).map(|_| gen_char(src, &cfg)).collect();
            h.extend([xc, xc, yc]);
            forced_hay = Some(cps_to_string(&h));
            Node::Cat(vec![look, Node::BackRef(0), y])
        }
        15 => {
            // alternation of arms that all start with ^, some inside a (?m:) / (?-m:) scope
            let arm = |src: &mut Src, cfg: &GenCfg| -> Node {
                let body = Node::Cat(vec![Node::Bol, Node::Lit(gen_char(src, cfg))]);
                match src.below(3) {
                    0 => body,
                    1 => Node::Mods { on: 2, off: 0, body: Box::new(body) },
                    _ => Node::Mods { on: 0, off: 2, body: Box::new(body) },
                }
            };
            let n = 2 + src.below(2);
            let alt = Node::Alt((0..n).map(|_| arm(src, &cfg)).collect());
            let mut h: Vec<u32> = vec![];
            for _ in 0..src.range(1, 4) {
                h.push(gen_char(src, &cfg));
                if src.chance(1, 2) {
                    h.push(*src.pick(&[0x0A, 0x0D, 0x2028]));
                }
            }
            forced_hay = Some(cps_to_string(&h));
            alt
        }
        14 => {
            // lookbehind holding a capture and a counted loop over alternatives of different lengths: (?<=(X*)(?:B|AB){n,m})T
            let xs = Node::Group { name: None, body: Box::new(Node::Quant { body: Box::new(if src.chance(1, 2) { Node::Dot } else { a(src, &cfg) }), min: 0, max: None, lazy: src.chance(1, 3), braces: false }) };
            let (b1, b2) = (gen_char(src, &cfg), gen_char(src, &cfg));
            let alt = Node::Alt(vec![Node::Lit(b1), Node::Cat(vec![Node::Lit(b2), Node::Lit(b1)])]);
            let min = src.range(1, 3);
            let max = min + src.range(0, 2);
            let lp = Node::Quant { body: Box::new(Node::NonCap(Box::new(alt))), min, max: Some(max), lazy: src.chance(1, 3), braces: true };
            let tail = if src.chance(1, 2) { Node::Eol } else { a(src, &cfg) };
            let mut h: Vec<u32> = (0..src.below(3)).map(|_| gen_char(src, &cfg)).collect();
            for _ in 0..src.range(1, 4) {
                if src.chance(1, 2) {
                    h.push(b2);
                }
                h.push(b1);
            }
            if let Node::Lit(c) = &tail {
                h.push(*c);
            }
            forced_hay = Some(cps_to_string(&h));
            Node::Cat(vec![Node::Look { behind: true, neg: false, body: Box::new(Node::Cat(vec![xs, lp])) }, tail])
        }
        13 => {
            // lookbehind whose group has an alternative that refers to the group itself: (?<=X(A|\1BA)C)D
            let (x, bch, c, d) = (gen_char(src, &cfg), gen_char(src, &cfg), gen_char(src, &cfg), gen_char(src, &cfg));
            let any = if src.chance(1, 2) { Node::Esc(b'w') } else { Node::Dot };
            let g = Node::Group { name: None, body: Box::new(Node::Alt(vec![any.clone(), Node::Cat(vec![Node::Quant { body: Box::new(Node::BackRef(0)), min: 0, max: Some(1), lazy: false, braces: false }, Node::Lit(bch), any])])) };
            let g = if src.chance(1, 3) { Node::Quant { body: Box::new(g), min: 1, max: Some(2), lazy: src.chance(1, 2), braces: true } } else { g };
            let lb = Node::Look { behind: true, neg: false, body: Box::new(Node::Cat(vec![Node::Lit(x), g, Node::Lit(c)])) };
            let mut h: Vec<u32> = (0..src.below(2)).map(|_| gen_char(src, &cfg)).collect();
            h.push(x);
            if src.chance(2, 3) {
                h.push(bch);
            }
            h.push(gen_char(src, &cfg));
            h.extend([c, d]);
            forced_hay = Some(cps_to_string(&h));
            Node::Cat(vec![lb, Node::Lit(d)])
        }
        12 => {
            // lookaround towers with a long literal in the innermost one, on a haystack that contains the literal:
            // (?<=X(?=LIT))y, (?=X(?<=LIT))y, (?<=(?<=LIT)X)y, (?=(?=LIT)X)y and their negated inner forms
            let lit = gen_literal_run(src, &cfg);
            let lit_cps: Vec<u32> = match &lit {
                Node::Cat(v) => v.iter().filter_map(|n| if let Node::Lit(c) = n { Some(*c) } else { None }).collect(),
                _ => vec![],
            };
            let x: Vec<u32> = (0..1 + src.below(2)).map(|_| gen_char(src, &cfg)).collect();
            let xn = Node::Cat(x.iter().map(|c| Node::Lit(*c)).collect());
            let outer_behind = src.chance(1, 2);
            let inner_behind = src.chance(1, 2);
            let inner = Node::Look { behind: inner_behind, neg: src.chance(1, 5), body: Box::new(lit) };
            // text layout: [pre] LITa X LITb [post]; the inner lookaround sees LITb (ahead of X's end) or LITa (behind X's start)
            let body = if inner_behind { Node::Cat(vec![inner, xn]) } else { Node::Cat(vec![xn, inner]) };
            let outer = Node::Look { behind: outer_behind, neg: false, body: Box::new(body) };
            let tail = if src.chance(1, 2) { Node::Dot } else { Node::Empty };
            let mut h: Vec<u32> = vec![];
            for _ in 0..src.below(3) {
                h.push(gen_char(src, &cfg));
            }
            let damage = src.chance(1, 4);
            let mut l1 = lit_cps.clone();
            if damage && !l1.is_empty() {
                let k = src.below(l1.len() as u32) as usize;
                l1[k] = gen_char(src, &cfg);
            }
            h.extend(l1.iter());
            h.extend(x.iter());
            h.extend(lit_cps.iter());
            for _ in 0..src.below(3) {
                h.push(gen_char(src, &cfg));
            }
            forced_hay = Some(cps_to_string(&h));
            Node::Cat(vec![outer, tail])
        }
        11 => {
            // a long literal (its UTF-8 form crosses one or more 16-byte chunk seams), shifted by a short prefix
            let mut parts = vec![];
            for _ in 0..src.below(3) {
                parts.push(a(src, &cfg));
            }
            parts.push(gen_literal_run(src, &cfg));
            if src.chance(1, 2) {
                parts.push(gen_node(src, &cfg, 3));
            }
            Node::Cat(parts)
        }
        10 => {
            // counted single-character loops with counts the optimizer does not unroll (> 5), greedy and lazy
            let c = gen_char(src, &cfg);
            let min = src.range(4, 8);
            let max = if src.chance(1, 4) { None } else { Some(min + src.below(4)) };
            let body = match src.below(3) {
                0 => Node::Lit(c),
                1 => Node::Dot,
                _ => Node::Class { neg: false, items: vec![ClassItem::Ch(c), ClassItem::Ch(gen_char(src, &cfg))] },
            };
            let q = Node::Quant { body: Box::new(body), min, max, lazy: src.chance(1, 2), braces: true };
            let q = if src.chance(1, 3) { Node::Group { name: None, body: Box::new(q) } } else { q };
            Node::Cat(vec![q, gen_node(src, &cfg, 3)])
        }
        8 => {
            // lookbehind holding a long literal (crosses the 16-byte chunk limit) or an icase string set,
            // with a nested lookaround somewhere inside it
            let n = *src.pick(&[3u32, 9, 16, 17, 18, 26, 33]);
            let lit = Node::Cat((0..n).map(|_| a(src, &cfg)).collect());
            // the nested lookaround sometimes holds a long literal itself (direction of a lookahead inside a lookbehind)
            let inner_body = if src.chance(1, 2) { gen_literal_run(src, &cfg) } else { gen_node(src, &cfg, 3) };
            let inner = Node::Look { behind: src.chance(1, 2), neg: src.chance(1, 3), body: Box::new(inner_body) };
            let mut parts = vec![lit, inner, gen_node(src, &cfg, 3)];
            if src.chance(1, 2) {
                parts.swap(0, 1);
            }
            if src.chance(1, 2) {
                parts.rotate_left(1);
            }
            Node::Cat(vec![gen_node(src, &cfg, 3), Node::Look { behind: true, neg: false, body: Box::new(Node::Cat(parts)) }, gen_node(src, &cfg, 3)])
        }
        9 => {
            // v-mode string sets inside lookbehind / under i, next to lookarounds
            let strs: Vec<Vec<u32>> = (0..1 + src.below(3)).map(|_| (0..1 + src.below(4)).map(|_| gen_char(src, &cfg)).collect()).collect();
            let set = if fl.mode == Mode::V { Node::ClassSet(Cs { neg: false, kind: CsKind::Union, ops: vec![CsOp::Q(strs)] }) } else { Node::Alt(strs.iter().map(|s| Node::Cat(s.iter().map(|c| Node::Lit(*c)).collect())).collect()) };
            let inner = Node::Look { behind: src.chance(1, 2), neg: src.chance(1, 3), body: Box::new(a(src, &cfg)) };
            let parts = if src.chance(1, 2) { vec![set, inner, a(src, &cfg)] } else { vec![a(src, &cfg), inner, set] };
            Node::Cat(vec![gen_node(src, &cfg, 3), Node::Look { behind: true, neg: src.chance(1, 4), body: Box::new(Node::Cat(parts)) }, gen_node(src, &cfg, 3)])
        }
        0 => {
            // nested quantifiers over empty-matchable bodies with min >= 1
            let inner = Node::Quant { body: Box::new(gen_node(src, &cfg, 2)), min: 0, max: Some(1 + src.below(2)), lazy: src.chance(1, 2), braces: false };
            let mid = Node::Quant { body: Box::new(Node::Group { name: None, body: Box::new(inner) }), min: 1 + src.below(2), max: None, lazy: src.chance(1, 2), braces: true };
            Node::Cat(vec![mid, gen_node(src, &cfg, 2)])
        }
        1 => {
            // lazy single-char loop followed by a backreference, inside a group
            let g = Node::Group { name: None, body: Box::new(Node::Cat(vec![Node::Quant { body: Box::new(a(src, &cfg)), min: 1, max: Some(2 + src.below(2)), lazy: true, braces: true }, Node::Quant { body: Box::new(Node::BackRef(0)), min: 0, max: Some(1), lazy: src.chance(1, 2), braces: false }])) };
            Node::Cat(vec![g, gen_node(src, &cfg, 2)])
        }
        2 => {
            // backreference inside its own group / alternatives
            let g = Node::Group { name: None, body: Box::new(Node::Alt(vec![gen_node(src, &cfg, 2), Node::Quant { body: Box::new(Node::BackRef(0)), min: 1, max: Some(3), lazy: false, braces: true }])) };
            Node::Cat(vec![g, gen_node(src, &cfg, 2)])
        }
        3 => {
            // captures inside lookbehind
            let lb = Node::Look { behind: true, neg: src.chance(1, 4), body: Box::new(Node::Cat(vec![Node::Group { name: None, body: Box::new(gen_node(src, &cfg, 2)) }, Node::Group { name: None, body: Box::new(gen_node(src, &cfg, 2)) }, Node::BackRef(src.below(2))])) };
            Node::Cat(vec![gen_node(src, &cfg, 2), lb, gen_node(src, &cfg, 2)])
        }
        4 => {
            // anchors under scoped m
            let body = Node::Cat(vec![if src.chance(1, 2) { Node::Bol } else { Node::Eol }, gen_node(src, &cfg, 2)]);
            Node::Cat(vec![gen_node(src, &cfg, 2), { let on_m = src.chance(1, 2); Node::Mods { on: if on_m { 2 } else { 0 }, off: if on_m { 0 } else { 2 }, body: Box::new(body) } }])
        }
        5 => {
            // counts at 0/1/2 boundaries around groups
            let (min, max) = *src.pick(&[(0, Some(0)), (0, Some(1)), (1, Some(1)), (1, Some(2)), (2, Some(2)), (0, Some(2)), (2, None)]);
            Node::Cat(vec![Node::Quant { body: Box::new(Node::Group { name: None, body: Box::new(gen_node(src, &cfg, 2)) }), min, max, lazy: src.chance(1, 2), braces: true }, Node::BackRef(0), gen_node(src, &cfg, 2)])
        }
        6 => {
            // icase backreferences and classes under scoped i
            let body = Node::Cat(vec![Node::Group { name: None, body: Box::new(gen_node(src, &cfg, 2)) }, Node::Mods { on: 1, off: 0, body: Box::new(Node::BackRef(0)) }]);
            Node::Cat(vec![body, gen_class(src, &cfg)])
        }
        _ => {
            // lookahead with captures that are kept / dropped
            let la = Node::Look { behind: false, neg: src.chance(1, 3), body: Box::new(Node::Group { name: None, body: Box::new(gen_node(src, &cfg, 2)) }) };
            Node::Cat(vec![la, gen_node(src, &cfg, 2), Node::BackRef(0)])
        }
    };
    let mut node = node;
    // mods themes need u/v-independent validity; modifiers are printed in all modes
    let mut c = 0;
    uniquify_names(&mut node, &mut c);
    let pat = Printer::print(&node, fl.mode);
    let maxlen = if tier == Tier::Quick { 8 } else { 12 };
    let hay = match src.below(4) {
        _ if forced_hay.is_some() => forced_hay.take().unwrap(),
        0 | 1 => witness_hay(src, &node, fl, &alpha, 2),
        2 => {
            // a long run of one character (longer than any finite count), then a little noise
            let c = *src.pick(&alpha);
            let mut v: Vec<u32> = (0..src.range(5, 14)).map(|_| c).collect();
            for _ in 0..src.below(4) {
                v.push(*src.pick(&alpha));
            }
            cps_to_string(&v)
        }
        _ => gen_hay(src, &alpha, maxlen),
    };
    let start = gen_start(src, &hay);
    Case { pat, flags: fl.text(), hay, hay16: vec![], start, x: serde_json::Value::Null }
}

/// compilable token soup x haystacks over the characters the fragments mention
fn gen_soup_match(src: &mut Src, tier: Tier) -> Case {
    let pat = crate::soup::gen_soup(src, 7);
    let fl = crate::soup::gen_flags_any(src);
    let alpha: Vec<u32> = vec![0x61, 0x62, 0x63, 0x41, 0x31, 0x30, 0x75, 0x78, 0x70, 0x5F, 0x2D, 0x20, 0x0A, 0xE9, 0x17F, 0x212A, 0x1F600, 0x10400, 0x02, 0x41, 0x7B, 0x7D, 0x5D];
    let sub: Vec<u32> = (0..4).map(|_| *src.pick(&alpha)).collect();
    let hay = gen_hay(src, &sub, if tier == Tier::Quick { 8 } else { 12 });
    let start = gen_start(src, &hay);
    Case { pat, flags: fl.text(), hay, hay16: vec![], start, x: serde_json::Value::Null }
}

/// names duplicated across alternatives, with \k references
fn gen_dup_names(src: &mut Src, tier: Tier) -> Case {
    let fl = Fl::gen(src);
    let alpha: Vec<u32> = vec![0x61, 0x62];
    let mut cfg = GenCfg::full(fl, alpha.clone());
    cfg.named = false;
    let mut avail: Vec<&'static str> = super::c16::NAMES[..3].to_vec();
    let k = 1 + src.below(3);
    let node = Node::Cat((0..k).map(|_| super::c16::gen_dup(src, &cfg, &mut avail, 0)).collect());
    let pat = Printer::print(&node, fl.mode);
    let hay = if src.chance(1, 2) { witness_hay(src, &node, fl, &alpha, 2) } else { gen_hay(src, &alpha, if tier == Tier::Quick { 8 } else { 12 }) };
    let start = gen_start(src, &hay);
    Case { pat, flags: fl.text(), hay, hay16: vec![], start, x: serde_json::Value::Null }
}

pub const REF_LIMIT: u64 = 3_000_000;

pub fn check(case: &Case, l: &mut Local) -> Verdict {
    let fl = Fl::parse(&case.flags);
    let h = case.hay.as_str();
    if case.start < h.len() && !h.is_char_boundary(case.start) {
        return Verdict::Skip("bad_start");
    }
    let re = compile(&case.pat, fl, false);
    let rf = esref::compile(&case.pat, fl);
    let (re, rf) = match (re, rf) {
        (Err(e), _) if is_infra_err(&e) => return Verdict::Skip("compile_infra"),
        (Err(_), Err(RefErr::Syntax(_))) => return Verdict::Skip("both_reject"),
        (Err(_), _) => return Verdict::Skip("regress_rejects_valid(C08)"),
        (Ok(_), Err(RefErr::Syntax(_))) => return Verdict::Skip("regress_accepts_invalid(C08)"),
        // (a pattern regress accepts only because of a recorded grammar quirk is C08's known finding; nothing to compare)
        (Ok(_), Err(RefErr::Decline(_))) => return Verdict::Skip("reference_declines"),
        (Ok(a), Ok(b)) => (a, b),
    };
    let (want, steps) = rf.find(h, case.start, REF_LIMIT);
    let want = match want {
        Found::Aborted => return Verdict::Skip("reference_exceeds_step_cap"),
        Found::NoMatch => None,
        Found::Match(m) => Some(m),
    };
    let fuel = 400 * steps + 200_000;
    let (got, rep) = find_first(&re, h, case.start, fuel);
    let got = match got {
        Out::Cut => return Verdict::Skip("regress_cut_by_fuel(C05)"),
        Out::Panic(p) => return Verdict::Fail(format!("panic: {}", p)),
        Out::Ms(v) => v.into_iter().next(),
        Out::Overrun(_) => unreachable!(),
    };
    l.max("max_regress_steps_per_ref_step_x100", rep.used * 100 / (steps + 1));
    if got != want {
        if let Some(id) = crate::kf::explain_match(&case.pat, fl, h, case.start, &got, REF_LIMIT) {
            return Verdict::Known(id);
        }
        return Verdict::Fail(format!(
            "find_from = {} but ECMAScript semantics give {}",
            got.as_ref().map(|m| m.show()).unwrap_or_else(|| "no match".into()),
            want.as_ref().map(|m| m.show()).unwrap_or_else(|| "no match".into())
        ));
    }
    // the other ways to run the same search must give the prescribed match too: a rotating quarter of the cases each
    // goes through the PikeVM, the non-optimizing pipeline, or both
    let extra: Option<(Engine, bool)> = match case.hash() % 4 {
        0 => Some((Engine::Pike, false)),
        1 => Some((Engine::Bt, true)),
        2 => Some((Engine::Pike, true)),
        _ => None,
    };
    if let Some((eng, no_opt)) = extra {
        let re2 = if no_opt { compile(&case.pat, fl, true).ok() } else { Some(re.clone()) };
        if let Some(re2) = re2 {
            if let Out::Ms(v) = first_with(&re2, eng, Enc::Utf8, h, case.start, fuel).0 {
                let got2 = v.into_iter().next();
                if got2 != want {
                    if let Some(id) = crate::kf::explain_match(&case.pat, fl, h, case.start, &got2, REF_LIMIT) {
                        return Verdict::Known(id);
                    }
                    return Verdict::Fail(format!(
                        "{:?} executor ({}) finds {} but ECMAScript semantics give {}",
                        eng,
                        if no_opt { "no_opt" } else { "opt" },
                        got2.as_ref().map(|m| m.show()).unwrap_or_else(|| "no match".into()),
                        want.as_ref().map(|m| m.show()).unwrap_or_else(|| "no match".into())
                    ));
                }
                l.class(if eng == Engine::Pike { "also_checked_on_pikevm" } else { "also_checked_without_optimizer" });
            }
        }
    }
    let t = tf(&case.pat);
    let kinds = [t.backref, t.lookbehind, t.lookahead, t.split, t.group, t.class, t.anchor, t.mods].iter().filter(|x| **x).count();
    if want.is_some() {
        l.class("matched");
    }
    if t.backref {
        l.class("has_backref");
    }
    if t.lookbehind {
        l.class("has_lookbehind");
    }
    if t.group {
        l.class("has_capture");
    }
    if fl.i {
        l.class("icase");
    }
    if t.mods {
        l.class("modifiers");
    }
    if case.start > 0 {
        l.class("start_gt_0");
    }
    // decisive: a match, or a failed search that consumed something (more reference steps than bare attempts)
    let decisive = want.is_some() || steps > 3 * (h.chars().count() as u64 + 1);
    Verdict::Pass { nontrivial: kinds >= 2 && decisive }
}

pub static V: Variant = Variant { name: "general", choice_len: 400, gen, check };
pub static VT: Variant = Variant { name: "themed", choice_len: 400, gen: gen_themed, check };

// ---- bounded-exhaustive slice: ALL patterns of a small grammar x ALL haystacks in {a,b}^<=4 x every start

fn t0() -> Vec<Node> {
    vec![
        Node::Lit(0x61),
        Node::Lit(0x62),
        Node::Dot,
        Node::Class { neg: false, items: vec![ClassItem::Ch(0x61), ClassItem::Ch(0x62)] },
        Node::Class { neg: true, items: vec![ClassItem::Ch(0x61)] },
        Node::BackRef(0),
        Node::Bol,
        Node::Eol,
        Node::Wb,
    ]
}

fn quantifiable(n: &Node) -> bool {
    !matches!(n, Node::Bol | Node::Eol | Node::Wb)
}

const QS: &[(u32, Option<u32>, bool)] = &[(0, Some(1), false), (0, None, false), (1, None, false), (0, None, true), (1, None, true), (0, Some(1), true), (2, Some(2), false), (1, Some(2), false), (1, Some(2), true), (0, Some(0), false), (2, None, false)];

fn quantified(n: &Node) -> Vec<Node> {
    QS.iter().map(|(min, max, lazy)| Node::Quant { body: Box::new(n.clone()), min: *min, max: *max, lazy: *lazy, braces: true }).collect()
}

pub fn small_slice(full: bool) -> &'static Vec<Case> {
    static Q: std::sync::OnceLock<Vec<Case>> = std::sync::OnceLock::new();
    static T: std::sync::OnceLock<Vec<Case>> = std::sync::OnceLock::new();
    let build = move || {
        let t = t0();
        // level-1 items: atoms and quantified atoms
        let mut i1: Vec<Node> = t.clone();
        for x in t.iter().filter(|x| quantifiable(x)) {
            i1.extend(quantified(x));
        }
        // bodies for groups: one level-1 item, two atoms in sequence, two atoms as alternatives (incl. an empty arm)
        let mut bodies: Vec<Node> = i1.clone();
        for x in &t {
            for y in &t {
                bodies.push(Node::Cat(vec![x.clone(), y.clone()]));
                bodies.push(Node::Alt(vec![x.clone(), y.clone()]));
            }
            bodies.push(Node::Alt(vec![x.clone(), Node::Empty]));
            bodies.push(Node::Alt(vec![Node::Empty, x.clone()]));
        }
        // level-2 items: the five group kinds around a body, plain and quantified
        let mut i2: Vec<Node> = vec![];
        for b in &bodies {
            let groups = vec![
                Node::Group { name: None, body: Box::new(b.clone()) },
                Node::NonCap(Box::new(b.clone())),
                Node::Look { behind: false, neg: false, body: Box::new(b.clone()) },
                Node::Look { behind: true, neg: false, body: Box::new(b.clone()) },
                Node::Look { behind: false, neg: true, body: Box::new(b.clone()) },
                Node::Look { behind: true, neg: true, body: Box::new(b.clone()) },
            ];
            for g in groups {
                let is_look = matches!(g, Node::Look { .. });
                i2.push(g.clone());
                if !is_look {
                    i2.extend(quantified(&g));
                }
            }
        }
        let mut out = vec![];
        let mut seen = std::collections::HashSet::new();
        let mut push = |n: Node, out: &mut Vec<Case>| {
            let pat = Printer::print(&n, Mode::Legacy);
            if seen.insert(pat.clone()) {
                out.push(Case { pat, flags: String::new(), hay: String::new(), hay16: vec![], start: 0, x: serde_json::Value::Null });
            }
        };
        // patterns: a level-2 item alone, followed by an atom, preceded by an atom; two level-1 items; three atoms
        for (k, g) in i2.iter().enumerate() {
            if !full && k % 4 != 0 {
                continue;
            }
            push(g.clone(), &mut out);
            for x in &t {
                push(Node::Cat(vec![g.clone(), x.clone()]), &mut out);
                push(Node::Cat(vec![x.clone(), g.clone()]), &mut out);
            }
        }
        for x in &i1 {
            for y in &i1 {
                push(Node::Cat(vec![x.clone(), y.clone()]), &mut out);
            }
        }
        out
    };
    if full {
        T.get_or_init(build)
    } else {
        Q.get_or_init(build)
    }
}

fn gen_small(src: &mut Src, _t: Tier) -> Case {
    let v = small_slice(false);
    v[(src.raw() as usize).min(v.len() - 1)].clone()
}

/// Second bounded-exhaustive slice, for the flags: atoms {a, A, LF, ., [a], [^a], \w, ^, $, \b, \B, \1}, five
/// quantifier shapes, pairs of items and the six group kinds around an atom or a two-way alternative, under ALL
/// 16 combinations of i, m, s x {legacy, u} (v for a quarter of them), on all haystacks over {a, A, LF} up to length 3.
pub fn flag_slice() -> &'static Vec<Case> {
    static S: std::sync::OnceLock<Vec<Case>> = std::sync::OnceLock::new();
    S.get_or_init(|| {
        let t: Vec<Node> = vec![
            Node::Lit(0x61),
            Node::Lit(0x41),
            Node::Lit(0x0A),
            Node::Dot,
            Node::Class { neg: false, items: vec![ClassItem::Ch(0x61)] },
            Node::Class { neg: true, items: vec![ClassItem::Ch(0x61)] },
            Node::Esc(b'w'),
            Node::Bol,
            Node::Eol,
            Node::Wb,
            Node::NotWb,
            Node::BackRef(0),
        ];
        const Q5: &[(u32, Option<u32>, bool)] = &[(0, Some(1), false), (0, None, false), (1, None, false), (0, None, true), (2, Some(2), false)];
        let mut i1: Vec<Node> = t.clone();
        for x in t.iter().filter(|x| quantifiable(x)) {
            for (min, max, lazy) in Q5 {
                i1.push(Node::Quant { body: Box::new(x.clone()), min: *min, max: *max, lazy: *lazy, braces: false });
            }
        }
        let mut nodes: Vec<Node> = vec![];
        for x in &i1 {
            for y in &i1 {
                nodes.push(Node::Cat(vec![x.clone(), y.clone()]));
            }
        }
        for x in &t {
            for y in &t {
                let bodies = [x.clone(), Node::Alt(vec![x.clone(), y.clone()])];
                for (bi, b) in bodies.iter().enumerate() {
                    if bi == 0 && !matches!(y, Node::Lit(0x61)) {
                        // the single-atom bodies once per x
                        continue;
                    }
                    let groups = vec![
                        Node::Group { name: None, body: Box::new(b.clone()) },
                        Node::Look { behind: false, neg: false, body: Box::new(b.clone()) },
                        Node::Look { behind: true, neg: false, body: Box::new(b.clone()) },
                        Node::Look { behind: false, neg: true, body: Box::new(b.clone()) },
                        Node::Look { behind: true, neg: true, body: Box::new(b.clone()) },
                        Node::Quant { body: Box::new(Node::Group { name: None, body: Box::new(b.clone()) }), min: 0, max: None, lazy: false, braces: false },
                    ];
                    for g in groups {
                        for z in [Node::Lit(0x61), Node::Lit(0x0A), Node::Dot, Node::Eol, Node::BackRef(0)] {
                            nodes.push(Node::Cat(vec![g.clone(), z.clone()]));
                            nodes.push(Node::Cat(vec![z, g.clone()]));
                        }
                    }
                }
            }
        }
        let mut out = vec![];
        let mut seen = std::collections::HashSet::new();
        for (k, n) in nodes.iter().enumerate() {
            for bits in 0..8u32 {
                for mode in [Mode::Legacy, if (k + bits as usize) % 4 == 0 { Mode::V } else { Mode::U }] {
                    let fl = Fl { i: bits & 1 != 0, m: bits & 2 != 0, s: bits & 4 != 0, mode };
                    let pat = Printer::print(n, mode);
                    if seen.insert((pat.clone(), fl.text())) {
                        out.push(Case { pat, flags: fl.text(), hay: String::new(), hay16: vec![], start: 0, x: serde_json::Value::Null });
                    }
                }
            }
        }
        out
    })
}

fn gen_flag_slice(src: &mut Src, _t: Tier) -> Case {
    let v = flag_slice();
    v[(src.raw() as usize).min(v.len() - 1)].clone()
}

fn check_flag_slice(case: &Case, l: &mut Local) -> Verdict {
    static HAYS: std::sync::OnceLock<Vec<String>> = std::sync::OnceLock::new();
    check_small_on(case, HAYS.get_or_init(|| all_strings(&[0x61, 0x41, 0x0A], 3)), l)
}

pub static VXF: Variant = Variant { name: "exhaustive_flag_slice", choice_len: 1, gen: gen_flag_slice, check: check_flag_slice };

fn check_small(case: &Case, l: &mut Local) -> Verdict {
    static HAYS: std::sync::OnceLock<Vec<String>> = std::sync::OnceLock::new();
    check_small_on(case, HAYS.get_or_init(|| all_strings(&[0x61, 0x62], 4)), l)
}

fn check_small_on(case: &Case, hays: &[String], l: &mut Local) -> Verdict {
    let fl = Fl::parse(&case.flags);
    let re = match compile(&case.pat, fl, false) {
        Ok(r) => r,
        Err(e) if is_infra_err(&e) => return Verdict::Skip("compile_infra"),
        Err(e) => return Verdict::Fail(format!("valid small pattern rejected: {}", e)),
    };
    let rf = match esref::compile(&case.pat, fl) {
        Ok(r) => r,
        Err(_) => return Verdict::Fail("reference rejects a pattern of the small grammar (harness bug)".into()),
    };
    let mut matched = 0;
    for h in hays {
        for s in [0usize, 1] {
            if s > h.len() {
                continue;
            }
            let (want, steps) = rf.find(h, s, REF_LIMIT);
            let want = match want {
                Found::Aborted => continue,
                Found::NoMatch => None,
                Found::Match(m) => Some(m),
            };
            let got = match find_first(&re, h, s, 400 * steps + 200_000).0 {
                Out::Ms(v) => v.into_iter().next(),
                Out::Cut => continue,
                Out::Panic(p) => return Verdict::Fail(format!("panic: {}", p)),
                Out::Overrun(_) => continue,
            };
            if got != want {
                return Verdict::Fail(format!(
                    "on \"{}\" from {}: find_from = {} but ECMAScript semantics give {}",
                    show_str(h),
                    s,
                    got.as_ref().map(|m| m.show()).unwrap_or_else(|| "no match".into()),
                    want.as_ref().map(|m| m.show()).unwrap_or_else(|| "no match".into())
                ));
            }
            if want.is_some() {
                matched += 1;
            }
        }
    }
    l.add("pattern_haystack_pairs", 2 * hays.len() as u64);
    Verdict::Pass { nontrivial: matched > 0 && matched < 2 * hays.len() }
}

pub static VX: Variant = Variant { name: "exhaustive_small_patterns", choice_len: 1, gen: gen_small, check: check_small };

pub static VS: Variant = Variant { name: "soup_match", choice_len: 100, gen: gen_soup_match, check };
pub static VD: Variant = Variant { name: "dup_names", choice_len: 300, gen: gen_dup_names, check };

pub fn variants() -> Vec<&'static Variant> {
    vec![&V, &VT, &VS, &VD, &VX, &VXF]
}

pub fn run(ctx: &Ctx) -> i32 {
    esref::selftest::ensure();
    ctx.run_list(&VX, small_slice(true));
    ctx.run_list(&VXF, flag_slice());
    ctx.run_variant(&V, ctx.scale(400_000, 8_000_000));
    ctx.run_variant(&VT, ctx.scale(200_000, 4_000_000));
    ctx.run_variant(&VS, ctx.scale(400_000, 6_000_000));
    ctx.run_variant(&VD, ctx.scale(200_000, 3_000_000));
    ctx.finish(
        "exploration",
        "(bounded-exhaustive) ALL patterns of a small grammar - atoms {a, b, ., [ab], [^a], \\1, ^, $, \\b}, 11 quantifier shapes (greedy and lazy), the six group kinds (capture, non-capture, (?=) (?<=) (?!) (?<!)) around a one- or two-atom body or alternative, optionally quantified, preceded or followed by an atom; every pair of level-1 items - x ALL haystacks in {a,b}^<=4 x starts 0 and 1; a second slice for the flags - atoms {a, A, LF, ., [a], [^a], \\w, ^, $, \\b, \\B, \\1}, five quantifier shapes, every pair of items, the group kinds around an atom or a two-way alternative - under ALL 16 combinations of i, m, s x legacy/u (v for a quarter) x ALL haystacks over {a, A, LF} up to length 3 (200k pattern/flag combinations, 16M searches); plus random ES patterns, valid by construction, over all 24 flag sets (i,m,s x none/u/v), inline modifiers, themed alphabets (ASCII, case-special, 1-4 byte, line terminators, white space, word/non-word) and themed shapes (nested empty-matchable quantifiers, lazy loops + backreferences, backreference inside its own group, captures in lookbehind, anchors under scoped m, counts at 0/1/2, scoped i); haystacks <= 8 (12) code points, random or sampled from the pattern's own language; every start offset. Also compilable token soup (the parser's special cases: legacy octal / \\c / \\u fallbacks, Annex B class ranges, reserved punctuators) and patterns with group names duplicated across alternatives and \\k references. Oracle: esref, an independent spec-shaped ECMAScript reference model (ES2025 22.2 on code-point input) re-validated on every run against a frozen corpus of V8 verdicts. Compared: start, end and every capture slot of find_from(..).next(); for a rotating three quarters of the cases also the PikeVM executor and / or the non-optimizing pipeline. Non-trivial = at least two construct kinds beyond literals and a decisive search (a match, or a failed search that consumed input).",
        &["esref (harness/src/esref) is the trusted base; its Unicode data are exported from V8/ICU (Unicode 17) and std, never from regress", "patterns on whose validity regress and esref disagree are C08's business and are skipped here (counted)", "fuel hook"],
    )
}
