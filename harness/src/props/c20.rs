//! C20: the Pattern-trait searcher honours the std Searcher contract (regress feature `pattern`, nightly toolchain).

use super::common::*;
use crate::drv::*;
use crate::pat::*;
use crate::run::*;
use crate::src::Src;
use serde_json::json;
use std::panic::{catch_unwind, AssertUnwindSafe};
use std::str::pattern::{Pattern, ReverseSearcher, SearchStep, Searcher};

fn gen(src: &mut Src, tier: Tier) -> Case {
    fn tweak(cfg: &mut GenCfg, src: &mut Src) {
        cfg.quant_w = 9;
        cfg.max_depth = 3;
        if src.chance(1, 2) {
            cfg.alpha = vec![0x61, 0x62, 0x31, 0xE9, 0x1F600];
        }
    }
    let mut g = gen_general(src, tier, 10, 12, tweak);
    if src.chance(1, 3) {
        // regexes that match empty everywhere / sometimes
        let a = *src.pick(&g.alpha);
        let node = match src.below(4) {
            0 => Node::Quant { body: Box::new(Node::Lit(a)), min: 0, max: None, lazy: false, braces: false },
            1 => Node::Quant { body: Box::new(Node::Esc(b'd')), min: 0, max: None, lazy: false, braces: false },
            2 => Node::Alt(vec![Node::Lit(a), Node::Empty]),
            _ => Node::Look { behind: false, neg: false, body: Box::new(Node::Lit(a)) },
        };
        g.case.pat = Printer::print(&node, g.fl.mode);
    }
    let nops = src.range(0, 40);
    let ops: Vec<u8> = (0..nops).map(|_| src.below(2) as u8).collect();
    g.case.start = 0;
    g.case.x = json!({"ops": ops, "n": src.range(0, 3)});
    g.case
}

fn st(s: SearchStep) -> (u8, usize, usize) {
    match s {
        SearchStep::Match(a, b) => (b'M', a, b),
        SearchStep::Reject(a, b) => (b'R', a, b),
        SearchStep::Done => (b'D', 0, 0),
    }
}

fn show_steps(v: &[(u8, usize, usize)]) -> String {
    v.iter().map(|(k, a, b)| if *k == b'D' { "Done".to_string() } else { format!("{}({},{})", if *k == b'M' { "Match" } else { "Reject" }, a, b) }).collect::<Vec<_>>().join(" ")
}

fn check(case: &Case, l: &mut Local) -> Verdict {
    let fl = Fl::parse(&case.flags);
    let h = case.hay.as_str();
    let re = match compile(&case.pat, fl, false) {
        Ok(r) => r,
        Err(e) if is_infra_err(&e) => return Verdict::Skip("compile_infra"),
        Err(_) => return Verdict::Skip("rejected"),
    };
    let lim = 4 * h.len() + 8;
    let expected: Vec<(usize, usize)> = match find_all(&re, Engine::Bt, Enc::Utf8, h, 0, match_limit(h, 0) + 2, DEFAULT_FUEL) {
        Out::Ms(v) => v.iter().map(|m| (m.s, m.e)).collect(),
        Out::Cut => return Verdict::Skip("cut_by_fuel"),
        o => return Verdict::Fail(format!("find_iter: {}", o.show())),
    };
    regress::verif::set_fuel(DEFAULT_FUEL * 20);
    let ops: Vec<u8> = case.x["ops"].as_array().map(|a| a.iter().map(|v| v.as_u64().unwrap_or(0) as u8).collect()).unwrap_or_default();
    let splitn_n = case.x["n"].as_u64().unwrap_or(0) as usize;
    let r = catch_unwind(AssertUnwindSafe(|| -> Result<(Vec<(u8, usize, usize)>, Vec<(u8, usize, usize)>), String> {
        // forward stream
        let mut s = (&re).into_searcher(h);
        let mut fw = vec![];
        loop {
            let x = st(s.next());
            fw.push(x);
            if x.0 == b'D' || fw.len() > lim {
                break;
            }
        }
        if fw.last().map(|x| x.0) != Some(b'D') {
            return Err(format!("forward searcher did not reach Done within {} steps: {}", lim, show_steps(&fw[..fw.len().min(12)])));
        }
        for _ in 0..3 {
            if st(s.next()).0 != b'D' {
                return Err("Done is not sticky (forward)".into());
            }
        }
        let mut cur = 0usize;
        for (k, a, b) in &fw {
            if *k == b'D' {
                break;
            }
            if *a != cur || b < a || *b > h.len() || !h.is_char_boundary(*a) || !h.is_char_boundary(*b) {
                return Err(format!("forward steps are not adjacent / in range / on char boundaries: {}", show_steps(&fw)));
            }
            cur = *b;
        }
        if cur != h.len() {
            return Err(format!("forward steps do not cover the haystack (stopped at {} of {}): {}", cur, h.len(), show_steps(&fw)));
        }
        let ms: Vec<(usize, usize)> = fw.iter().filter(|x| x.0 == b'M').map(|x| (x.1, x.2)).collect();
        if ms != expected {
            return Err(format!("Match steps {:?} differ from find_iter {:?}", ms, expected));
        }
        // backward stream
        let mut s = (&re).into_searcher(h);
        let mut bw = vec![];
        loop {
            let x = st(s.next_back());
            bw.push(x);
            if x.0 == b'D' || bw.len() > lim {
                break;
            }
        }
        if bw.last().map(|x| x.0) != Some(b'D') {
            return Err(format!("reverse searcher did not reach Done within {} steps: {}", lim, show_steps(&bw[..bw.len().min(12)])));
        }
        for _ in 0..3 {
            if st(s.next_back()).0 != b'D' {
                return Err("Done is not sticky (reverse)".into());
            }
        }
        let mut cur = h.len();
        for (k, a, b) in &bw {
            if *k == b'D' {
                break;
            }
            if *b != cur || b < a || !h.is_char_boundary(*a) || !h.is_char_boundary(*b) {
                return Err(format!("reverse steps are not adjacent / in range / on char boundaries: {}", show_steps(&bw)));
            }
            cur = *a;
        }
        if cur != 0 {
            return Err(format!("reverse steps do not cover the haystack (stopped at {}): {}", cur, show_steps(&bw)));
        }
        // interleaving: memory-safety part of the contract only
        let mut s = (&re).into_searcher(h);
        let (mut fcur, mut bcur) = (0usize, h.len());
        let (mut fdone, mut bdone) = (false, false);
        let mut calls = 0;
        for op in ops.iter().chain(std::iter::repeat(&0u8).take(lim)) {
            calls += 1;
            if calls > 2 * lim + ops.len() || (fdone && bdone) {
                break;
            }
            let (k, a, b) = if *op == 0 { st(s.next()) } else { st(s.next_back()) };
            if k == b'D' {
                if *op == 0 {
                    fdone = true
                } else {
                    bdone = true
                }
                if ops.len() < calls {
                    // draining phase uses next() only; stop once it is done
                    if fdone {
                        break;
                    }
                }
                continue;
            }
            if a > b || b > h.len() || !h.is_char_boundary(a) || !h.is_char_boundary(b) {
                return Err(format!("interleaved step ({},{}) out of range / off a char boundary", a, b));
            }
            if *op == 0 {
                if a != fcur {
                    return Err(format!("interleaved: forward step ({},{}) is not adjacent to the previous forward step (expected start {})", a, b, fcur));
                }
                fcur = b;
            } else {
                if b != bcur {
                    return Err(format!("interleaved: reverse step ({},{}) is not adjacent to the previous reverse step (expected end {})", a, b, bcur));
                }
                bcur = a;
            }
        }
        if !fdone && calls > 2 * lim {
            return Err("interleaved use does not terminate".into());
        }
        Ok((fw, bw))
    }));
    let cut = regress::verif::report().exhausted;
    regress::verif::set_fuel(u64::MAX);
    if cut {
        return Verdict::Skip("cut_by_fuel");
    }
    let (fw, _bw) = match r {
        Err(p) => return Verdict::Fail(format!("searcher panicked: {}", panic_msg(p))),
        Ok(Err(m)) => return Verdict::Fail(m),
        Ok(Ok(x)) => x,
    };
    // str methods against models built from find_iter
    let text = |r: &(usize, usize)| &h[r.0..r.1];
    let r2 = catch_unwind(AssertUnwindSafe(|| -> Result<(), String> {
        regress::verif::set_fuel(DEFAULT_FUEL * 20);
        if h.find(&re) != expected.first().map(|m| m.0) {
            return Err(format!("str::find = {:?}, first find_iter match {:?}", h.find(&re), expected.first()));
        }
        if h.contains(&re) != !expected.is_empty() {
            return Err("str::contains disagrees with find_iter".into());
        }
        let m: Vec<&str> = h.matches(&re).collect();
        if m != expected.iter().map(text).collect::<Vec<_>>() {
            return Err(format!("str::matches = {:?}", m));
        }
        let mi: Vec<(usize, &str)> = h.match_indices(&re).collect();
        if mi != expected.iter().map(|r| (r.0, text(r))).collect::<Vec<_>>() {
            return Err(format!("str::match_indices = {:?}", mi));
        }
        // split model
        let mut pieces = vec![];
        let mut start = 0;
        for (a, b) in &expected {
            pieces.push(&h[start..*a]);
            start = *b;
        }
        pieces.push(&h[start..]);
        let sp: Vec<&str> = h.split(&re).collect();
        if sp != pieces {
            return Err(format!("str::split = {:?}, model {:?}", sp, pieces));
        }
        let mut term = pieces.clone();
        if term.last() == Some(&"") {
            term.pop();
        }
        let st_: Vec<&str> = h.split_terminator(&re).collect();
        if st_ != term {
            return Err(format!("str::split_terminator = {:?}, model {:?}", st_, term));
        }
        if splitn_n > 0 {
            let mut model = vec![];
            let mut start = 0;
            for (a, b) in expected.iter().take(splitn_n - 1) {
                model.push(&h[start..*a]);
                start = *b;
            }
            model.push(&h[start..]);
            let got: Vec<&str> = h.splitn(splitn_n, &re).collect();
            if got != model {
                return Err(format!("str::splitn({}) = {:?}, model {:?}", splitn_n, got, model));
            }
        }
        // prefix-based
        let sp = h.strip_prefix(&re);
        let want_sp = match expected.first() {
            Some((0, b)) => Some(&h[*b..]),
            _ => None,
        };
        if sp != want_sp {
            return Err(format!("str::strip_prefix = {:?}, model {:?}", sp, want_sp));
        }
        // trim_start_matches: repeatedly strip a match at the front (std stops at the first Reject)
        let mut i = 0;
        for (k, a, b) in &fw {
            if *k == b'M' && *a == i {
                i = *b;
            } else {
                break;
            }
        }
        let _ = i;
        regress::verif::set_fuel(u64::MAX);
        Ok(())
    }));
    regress::verif::set_fuel(u64::MAX);
    match r2 {
        Err(p) => return Verdict::Fail(format!("str method panicked: {}", panic_msg(p))),
        Ok(Err(m)) => return Verdict::Fail(m),
        Ok(Ok(())) => {}
    }
    let has_match = fw.iter().any(|x| x.0 == b'M');
    let has_reject = fw.iter().any(|x| x.0 == b'R');
    let has_empty = expected.iter().any(|m| m.0 == m.1);
    if has_empty {
        l.class("has_empty_match");
    }
    if h.chars().any(|c| c.len_utf8() > 1) {
        l.class("multibyte");
    }
    Verdict::Pass { nontrivial: has_match && has_reject && has_empty }
}

fn gen_small(src: &mut Src, _t: Tier) -> Case {
    let v = super::c01::small_slice(true);
    v[(src.raw() as usize).min(v.len() - 1)].clone()
}

/// bounded-exhaustive: the small-pattern grammar of C01 with b spelled as e-acute, flags - and u, all haystacks
/// over {a, e-acute, U+1F600} up to length 3, three forward / backward interleavings
fn check_small(case: &Case, l: &mut Local) -> Verdict {
    static HAYS: std::sync::OnceLock<Vec<String>> = std::sync::OnceLock::new();
    let hays = HAYS.get_or_init(|| all_strings(&[0x61, 0xE9, 0x1F600], 3));
    let pat = respell_b(&case.pat, 0xE9);
    let mut nontrivial = false;
    for fl in ["", "u"] {
        for h in hays {
            for (k, ops) in [vec![], vec![0u8, 1, 0, 1, 0, 1, 0, 1], vec![1u8, 1, 0, 1, 1, 0, 0, 0, 1]].iter().enumerate() {
                let c = Case { pat: pat.clone(), hay: h.clone(), start: 0, flags: fl.to_string(), x: json!({"ops": ops, "n": k}), ..case.clone() };
                match check(&c, l) {
                    Verdict::Fail(m) => return Verdict::Fail(format!("/{}/{} on \"{}\" ops {:?}: {}", show(&pat), fl, h, ops, m)),
                    Verdict::Pass { nontrivial: n } => nontrivial |= n,
                    _ => {}
                }
            }
        }
    }
    Verdict::Pass { nontrivial }
}

pub static VX: Variant = Variant { name: "exhaustive_small_patterns", choice_len: 1, gen: gen_small, check: check_small };
pub static V: Variant = Variant { name: "searcher_contract", choice_len: 500, gen, check };

pub fn variants() -> Vec<&'static Variant> {
    vec![&V, &VX]
}

pub fn run(ctx: &Ctx) -> i32 {
    let slice = super::c01::small_slice(true);
    let part: Vec<Case> = slice.iter().enumerate().filter(|(i, _)| ctx.tier == Tier::Thorough || i % 16 == 0).map(|(_, c)| c.clone()).collect();
    ctx.run_list(&VX, &part);
    ctx.run_variant(&V, ctx.scale(300_000, 5_000_000));
    ctx.finish(
        "exploration",
        "(nightly, regress feature `pattern`) (bounded-exhaustive) the small-pattern grammar of C01 with b spelled as e-acute (a sixteenth of it in the quick tier), flags - and u, x all haystacks over {a, e-acute, U+1F600} up to length 3 x three forward/backward interleavings; random regexes that match empty everywhere / sometimes / never, at multi-byte characters, with adjacent matches x haystacks <= 10 (12) chars x generated interleavings of next()/next_back() (<= 40 ops). Forward stream until Done: steps adjacent, non-overlapping, from 0 to len, on char boundaries, Match steps == find_iter's ranges, Done sticky; reverse stream: the mirror image from len down to 0; interleaved use: every step in range and on boundaries, each direction's sub-stream adjacent, terminates within 4*len+8 calls. End to end: str::{find, contains, matches, match_indices, split, split_terminator, splitn, strip_prefix} with &re equal models computed from find_iter. Non-trivial = the stream has Match and Reject steps and an empty match.",
        &["find_iter is the reference for which ranges are matches (C01/C09)", "which matches the REVERSE searcher reports is not prescribed by the property (tiling only)", "fuel hook"],
    )
}
