//! Shared generators / helpers for the property modules.

use crate::drv::{Case, Tier};
use crate::pat::*;
use crate::src::Src;
use serde_json::json;

/// Cheap textual features of a rendered pattern (used for classification only, never for verdicts).
#[derive(Default, Debug, Clone)]
pub struct TF {
    pub backref: bool,
    pub lookbehind: bool,
    pub lookahead: bool,
    pub split: bool,
    pub group: bool,
    pub named: bool,
    pub class: bool,
    pub nonascii: bool,
    pub anchor: bool,
    pub mods: bool,
    pub lazy: bool,
}

pub fn tf(p: &[u32]) -> TF {
    let mut t = TF::default();
    let c = |i: usize| -> u32 { p.get(i).copied().unwrap_or(0) };
    let mut i = 0;
    while i < p.len() {
        let ch = p[i];
        if ch > 0x7f {
            t.nonascii = true;
        }
        if ch == '\\' as u32 {
            let n = c(i + 1);
            if (0x31..=0x39).contains(&n) || (n == 'k' as u32 && c(i + 2) == '<' as u32) {
                t.backref = true;
            }
            if n == 'b' as u32 || n == 'B' as u32 {
                t.anchor = true;
            }
            if n == 'u' as u32 || n == 'p' as u32 || n == 'P' as u32 {
                t.nonascii = true;
            }
            i += 2;
            continue;
        }
        if ch == '(' as u32 {
            if c(i + 1) == '?' as u32 {
                match (char::from_u32(c(i + 2)), char::from_u32(c(i + 3))) {
                    (Some('<'), Some('=')) | (Some('<'), Some('!')) => t.lookbehind = true,
                    (Some('='), _) | (Some('!'), _) => t.lookahead = true,
                    (Some('<'), _) => {
                        t.group = true;
                        t.named = true
                    }
                    (Some(':'), _) => {}
                    _ => t.mods = true,
                }
            } else {
                t.group = true;
            }
        }
        if ch == '|' as u32 || ch == '*' as u32 || ch == '+' as u32 || ch == '?' as u32 || ch == '{' as u32 {
            t.split = true;
            if c(i + 1) == '?' as u32 && ch != '|' as u32 {
                t.lazy = true;
            }
        }
        if ch == '[' as u32 {
            t.class = true;
        }
        if ch == '^' as u32 || ch == '$' as u32 {
            t.anchor = true;
        }
        i += 1;
    }
    t
}

pub struct General {
    pub case: Case,
    pub node: Node,
    pub fl: Fl,
    pub alpha: Vec<u32>,
}

/// The general-purpose case generator: flags, alphabet, pattern, haystack, start.
pub fn gen_general(src: &mut Src, tier: Tier, hay_q: u32, hay_t: u32, tweak: fn(&mut GenCfg, &mut Src)) -> General {
    let fl = Fl::gen(src);
    let alpha = gen_alphabet(src);
    let mut cfg = GenCfg::full(fl, alpha.clone());
    tweak(&mut cfg, src);
    let node = gen_pattern(src, &cfg);
    let pat = Printer::print(&node, fl.mode);
    let maxlen = if tier == Tier::Quick { hay_q } else { hay_t };
    let hay = if src.chance(2, 5) {
        let mut h = witness_hay(src, &node, fl, &cfg.alpha, 3);
        while h.chars().count() > (maxlen as usize + 8) {
            h.pop();
        }
        h
    } else {
        gen_hay(src, &cfg.alpha, maxlen)
    };
    let start = gen_start(src, &hay);
    General {
        case: Case { pat, flags: fl.text(), hay, hay16: vec![], start, x: json!(null) },
        node,
        fl,
        alpha: cfg.alpha,
    }
}

pub fn no_tweak(_: &mut GenCfg, _: &mut Src) {}

/// All strings over `alpha` of length 0..=l (as Strings), shortest first.
pub fn all_strings(alpha: &[u32], l: usize) -> Vec<String> {
    let chars: Vec<char> = alpha.iter().filter_map(|c| char::from_u32(*c)).collect();
    let mut out = vec![String::new()];
    let mut layer = vec![String::new()];
    for _ in 0..l {
        let mut next = Vec::with_capacity(layer.len() * chars.len());
        for s in &layer {
            for c in &chars {
                let mut t = s.clone();
                t.push(*c);
                next.push(t);
            }
        }
        out.extend(next.iter().cloned());
        layer = next;
    }
    out
}

/// Characters that matter for a pattern: those of its alphabet that the rendered pattern mentions
/// (literally), capped, plus fillers.
pub fn relevant_alphabet(pat: &[u32], alpha: &[u32], cap: usize) -> Vec<u32> {
    let mut v: Vec<u32> = vec![];
    for a in alpha {
        if pat.contains(a) && !v.contains(a) && char::from_u32(*a).is_some() {
            v.push(*a);
        }
    }
    for a in alpha {
        if v.len() >= cap {
            break;
        }
        if !v.contains(a) && char::from_u32(*a).is_some() {
            v.push(*a);
        }
    }
    v.truncate(cap);
    v
}

/// The small-pattern grammar spells its second literal as `b`; multi-byte variants of the slice re-spell it.
pub fn respell_b(pat: &[u32], to: u32) -> Vec<u32> {
    let mut out = Vec::with_capacity(pat.len());
    let mut prev = 0x20;
    for &c in pat {
        out.push(if c == 0x62 && prev != 0x5C { to } else { c });
        prev = c;
    }
    out
}
