//! C13: ASCII entry points agree with the UTF-8 ones on ASCII haystacks.

use super::common::*;
use crate::drv::*;
use crate::pat::*;
use crate::run::*;
use crate::src::Src;

fn gen(src: &mut Src, tier: Tier) -> Case {
    let fl = Fl::gen(src);
    // pattern alphabet: may contain non-ASCII (fold partners etc.); haystack alphabet: ASCII only
    let mut alpha = gen_alphabet(src);
    if src.chance(1, 3) {
        alpha = vec![0x73, 0x53, 0x17F, 0x6B, 0x4B, 0x212A, 0x61];
    }
    let cfg = GenCfg::full(fl, alpha.clone());
    let node = gen_pattern(src, &cfg);
    let pat = Printer::print(&node, fl.mode);
    let mut hay_alpha: Vec<u32> = alpha.iter().copied().filter(|c| *c < 0x80).collect();
    for extra in [0x73, 0x6B, 0x53, 0x4B, 0x00, 0x7F, 0x0A, 0x20, 0x5F, 0x30, 0x5B, 0x7B, 0x40, 0x60, 0x5E, 0x7E] {
        if src.chance(1, 3) {
            hay_alpha.push(extra);
        }
    }
    if hay_alpha.is_empty() {
        hay_alpha.push(0x61);
    }
    let maxlen = if tier == Tier::Quick { 10 } else { 16 };
    let len = src.range(0, maxlen);
    let hay: String = (0..len)
        .map(|_| if src.chance(1, 10) { src.below(128) as u8 as char } else { *src.pick(&hay_alpha) as u8 as char })
        .collect();
    let start = if src.chance(1, 2) { src.range(0, hay.len() as u32 + 1) as usize } else { 0 };
    Case { pat, flags: fl.text(), hay, hay16: vec![], start, x: serde_json::Value::Null }
}

pub fn check(case: &Case, l: &mut Local) -> Verdict {
    if !case.hay.is_ascii() {
        return Verdict::Skip("non_ascii_haystack");
    }
    let fl = Fl::parse(&case.flags);
    let t = tf(&case.pat);
    let mut any_match = false;
    let mut compiled = 0;
    for no_opt in [false, true] {
        let re = match compile(&case.pat, fl, no_opt) {
            Ok(re) => re,
            Err(e) if is_infra_err(&e) => return Verdict::Skip("compile_infra"),
            Err(_) => continue,
        };
        compiled += 1;
        let lim = match_limit(&case.hay, case.start) + 4;
        for eng in [Engine::Bt, Engine::Pike] {
            let a = find_all(&re, eng, Enc::Utf8, &case.hay, case.start, lim, DEFAULT_FUEL);
            let b = find_all(&re, eng, Enc::Ascii, &case.hay, case.start, lim, DEFAULT_FUEL);
            if a.is_cut() || b.is_cut() {
                return Verdict::Skip("cut_by_fuel");
            }
            if a != b {
                return Verdict::Fail(format!(
                    "ASCII and UTF-8 entry points differ ({:?}, {}): utf8={} ascii={}",
                    eng,
                    if no_opt { "no_opt" } else { "opt" },
                    a.show(),
                    b.show()
                ));
            }
            if let Out::Ms(v) = &a {
                any_match |= !v.is_empty();
            }
        }
    }
    if compiled == 0 {
        return Verdict::Skip("rejected");
    }
    if any_match {
        l.class("matched");
    }
    if t.nonascii {
        l.class("pattern_mentions_non_ascii");
    }
    if fl.i {
        l.class("icase");
    }
    Verdict::Pass { nontrivial: any_match && (t.nonascii || fl.i) }
}

fn gen_small(src: &mut Src, _t: Tier) -> Case {
    let v = super::c01::small_slice(true);
    v[(src.raw() as usize).min(v.len() - 1)].clone()
}

fn check_small(case: &Case, l: &mut Local) -> Verdict {
    static HAYS: std::sync::OnceLock<Vec<String>> = std::sync::OnceLock::new();
    let hays = HAYS.get_or_init(|| all_strings(&[0x61, 0x62], 4));
    let mut nontrivial = false;
    for fl in ["", "i", "iu"] {
        for h in hays {
            for s in [0usize, 1, h.len() + 1] {
                let c = Case { hay: h.clone(), start: s, flags: fl.to_string(), ..case.clone() };
                match check(&c, l) {
                    Verdict::Fail(m) => return Verdict::Fail(format!("flags \"{}\" on \"{}\" from {}: {}", fl, h, s, m)),
                    Verdict::Pass { nontrivial: n } => nontrivial |= n,
                    _ => {}
                }
            }
        }
    }
    Verdict::Pass { nontrivial }
}

fn gen_flag(src: &mut Src, _t: Tier) -> Case {
    let v = super::c01::flag_slice();
    v[(src.raw() as usize).min(v.len() - 1)].clone()
}

/// the flag slice of C01 (i, m, s x legacy/u) x all haystacks over {a, A, LF} up to length 3 x starts 0, 1, len+1
fn check_flag(case: &Case, l: &mut Local) -> Verdict {
    static HAYS: std::sync::OnceLock<Vec<String>> = std::sync::OnceLock::new();
    let hays = HAYS.get_or_init(|| all_strings(&[0x61, 0x41, 0x0A], 3));
    let mut nontrivial = false;
    for h in hays {
        for s in [0usize, 1, h.len() + 1] {
            let c = Case { hay: h.clone(), start: s, ..case.clone() };
            match check(&c, l) {
                Verdict::Fail(m) => return Verdict::Fail(format!("on \"{}\" from {}: {}", show_str(h), s, m)),
                Verdict::Pass { nontrivial: n } => nontrivial |= n,
                _ => {}
            }
        }
    }
    Verdict::Pass { nontrivial }
}

pub static VF: Variant = Variant { name: "exhaustive_flag_slice", choice_len: 1, gen: gen_flag, check: check_flag };
pub static VX: Variant = Variant { name: "exhaustive_small_patterns", choice_len: 1, gen: gen_small, check: check_small };
pub static V: Variant = Variant { name: "ascii_vs_utf8", choice_len: 400, gen, check };

pub fn variants() -> Vec<&'static Variant> {
    vec![&V, &VX, &VF]
}

pub fn run(ctx: &Ctx) -> i32 {
    let slice = super::c01::small_slice(true);
    let part: Vec<Case> = slice.iter().enumerate().filter(|(i, _)| ctx.tier == Tier::Thorough || i % 8 == 0).map(|(_, c)| c.clone()).collect();
    ctx.run_list(&VX, &part);
    let fpart: Vec<Case> = super::c01::flag_slice().iter().enumerate().filter(|(i, _)| ctx.tier == Tier::Thorough || i % 4 == 0).map(|(_, c)| c.clone()).collect();
    ctx.run_list(&VF, &fpart);
    ctx.run_variant(&V, ctx.scale(800_000, 12_000_000));
    ctx.finish(
        "exploration",
        "(bounded-exhaustive) the small-pattern grammar of C01 (an eighth of it in the quick tier) under flags -, i, iu x all haystacks in {a,b}^<=4 x starts 0, 1, len+1; the flag slice of C01 (all i, m, s x legacy/u sets; a quarter of it in the quick tier) x all haystacks over {a, A, LF} up to length 3; plus random ES patterns (incl. non-ASCII literals, U+017F/U+212A fold partners, surrogate escapes, \\p) x ASCII haystacks over all 128 bytes x every start <= len+1; both executors, both pipelines; oracle = differential find_from_ascii vs find_from. Non-trivial = a match exists and the pattern mentions a non-ASCII character or uses i.",
        &["fuel hook cuts runaway searches (counted, never judged)"],
    )
}
