//! C14: UTF-16 / UCS-2 entry points agree with UTF-8 on well-formed text; arbitrary u16 input is handled safely.
//! Only compiled with the harness feature `utf16` (which enables regress' `utf16` feature for the whole build).

use super::common::*;
use crate::drv::*;
use crate::pat::*;
use crate::run::*;
use crate::src::Src;
use serde_json::json;
use std::panic::{catch_unwind, AssertUnwindSafe};

fn gen(src: &mut Src, tier: Tier) -> Case {
    fn tweak(cfg: &mut GenCfg, src: &mut Src) {
        if src.chance(2, 3) {
            cfg.alpha = src.pick(&[&[0xE9u32, 0x20AC, 0x1F600, 0x61, 0x10400, 0x10428][..], &[0x10400, 0x10428, 0x1F600, 0x1F601, 0x61, 0xFFFF][..], &[0x61, 0x62, 0xD7FF, 0xE000, 0x10000, 0x10FFFF][..], &[0x1E900, 0x1E922, 0x16E40, 0x16E60, 0x73, 0x17F][..]]).to_vec();
        }
    }
    gen_general(src, tier, 10, 14, tweak).case
}

fn collect16<I: Iterator<Item = regress::Match>>(it: I, limit: usize) -> Vec<M> {
    let mut v = vec![];
    for m in it {
        v.push(M::from(&m));
        if v.len() > limit {
            break;
        }
    }
    v
}

fn check(case: &Case, l: &mut Local) -> Verdict {
    let fl = Fl::parse(&case.flags);
    let t = case.hay.as_str();
    if case.start < t.len() && !t.is_char_boundary(case.start) {
        return Verdict::Skip("bad_start");
    }
    let astral = t.chars().any(|c| c as u32 > 0xFFFF);
    let units: Vec<u16> = t.encode_utf16().collect();
    // offset maps
    let mut u16_to_u8 = vec![usize::MAX; units.len() + 1];
    {
        let (mut a, mut b) = (0usize, 0usize);
        for ch in t.chars() {
            u16_to_u8[a] = b;
            a += ch.len_utf16();
            b += ch.len_utf8();
        }
        u16_to_u8[a] = b;
    }
    let s16: usize = if case.start >= t.len() { units.len() + (case.start - t.len()) } else { t[..case.start].chars().map(|c| c.len_utf16()).sum() };
    let mut any = false;
    for no_opt in [false, true] {
        let re = match compile(&case.pat, fl, no_opt) {
            Ok(r) => r,
            Err(e) if is_infra_err(&e) => return Verdict::Skip("compile_infra"),
            Err(_) => return Verdict::Skip("rejected"),
        };
        let lim = match_limit(t, case.start) + 4;
        let want = match find_all(&re, Engine::Bt, Enc::Utf8, t, case.start, lim, DEFAULT_FUEL) {
            Out::Ms(v) => v,
            Out::Cut => return Verdict::Skip("cut_by_fuel"),
            o => return Verdict::Fail(format!("UTF-8 search: {}", o.show())),
        };
        for ucs2 in [false, true] {
            if ucs2 && astral {
                continue;
            }
            regress::verif::set_fuel(DEFAULT_FUEL);
            let r = catch_unwind(AssertUnwindSafe(|| if ucs2 { collect16(re.find_from_ucs2(&units, s16), lim) } else { collect16(re.find_from_utf16(&units, s16), lim) }));
            let cut = regress::verif::report().exhausted;
            regress::verif::set_fuel(u64::MAX);
            if cut {
                return Verdict::Skip("cut_by_fuel");
            }
            let got16 = match r {
                Ok(v) => v,
                Err(p) => return Verdict::Fail(format!("{} panicked: {}", if ucs2 { "find_from_ucs2" } else { "find_from_utf16" }, panic_msg(p))),
            };
            // translate
            let mut got = vec![];
            for m in &got16 {
                let tr = |i: usize| -> Option<usize> { u16_to_u8.get(i).copied().filter(|x| *x != usize::MAX) };
                let conv = |a: usize, b: usize| -> Option<(usize, usize)> { Some((tr(a)?, tr(b)?)) };
                let r = match conv(m.s, m.e) {
                    Some(r) => r,
                    None => return Verdict::Fail(format!("{}: match {}..{} (code units) is out of range or splits a surrogate pair", if ucs2 { "ucs2" } else { "utf16" }, m.s, m.e)),
                };
                let mut caps = vec![];
                for c in &m.caps {
                    match c {
                        None => caps.push(None),
                        Some((a, b)) => match conv(*a, *b) {
                            Some(r) => caps.push(Some(r)),
                            None => return Verdict::Fail(format!("capture {}..{} (code units) is out of range or splits a surrogate pair", a, b)),
                        },
                    }
                }
                got.push(M { s: r.0, e: r.1, caps });
            }
            if got != want {
                return Verdict::Fail(format!(
                    "{} ({}) differs from the UTF-8 search: utf8=[{}] {}=[{}] (offsets translated to UTF-8)",
                    if ucs2 { "find_from_ucs2" } else { "find_from_utf16" },
                    if no_opt { "no_opt" } else { "opt" },
                    show_ms(&want),
                    if ucs2 { "ucs2" } else { "utf16" },
                    show_ms(&got)
                ));
            }
        }
        any |= !want.is_empty();
    }
    if astral {
        l.class("supplementary_text");
    }
    if any {
        l.class("matched");
    }
    Verdict::Pass { nontrivial: astral && any }
}

// ---- arbitrary u16 input

fn gen_noise(src: &mut Src, tier: Tier) -> Case {
    let g = gen_general(src, tier, 0, 0, no_tweak);
    let n = src.range(0, 12);
    let units: Vec<u16> = (0..n)
        .map(|_| match src.weighted(&[3, 3, 3, 1]) {
            0 => 0xD800 + src.below(0x400) as u16,
            1 => 0xDC00 + src.below(0x400) as u16,
            2 => *src.pick(&[0x61u16, 0x62, 0x41, 0x0A, 0x20, 0xE9, 0x17F, 0x212A, 0xFFFF, 0x0]),
            _ => src.below(0x10000) as u16,
        })
        .collect();
    let start = src.range(0, n + 1) as usize;
    let mut c = g.case;
    c.hay = String::new();
    c.hay16 = units;
    c.start = start;
    c.x = json!({"noise": true});
    c
}

fn check_noise(case: &Case, l: &mut Local) -> Verdict {
    let fl = Fl::parse(&case.flags);
    let units = &case.hay16;
    let re = match compile(&case.pat, fl, false) {
        Ok(r) => r,
        Err(e) if is_infra_err(&e) => return Verdict::Skip("compile_infra"),
        Err(_) => return Verdict::Skip("rejected"),
    };
    let lim = units.len() + 4;
    let in_pair = |i: usize| i > 0 && i < units.len() && (0xD800..0xDC00).contains(&units[i - 1]) && (0xDC00..0xE000).contains(&units[i]);
    let mut any = false;
    for ucs2 in [false, true] {
        regress::verif::set_fuel(DEFAULT_FUEL);
        let r = catch_unwind(AssertUnwindSafe(|| if ucs2 { collect16(re.find_from_ucs2(units, case.start), lim) } else { collect16(re.find_from_utf16(units, case.start), lim) }));
        let cut = regress::verif::report().exhausted;
        regress::verif::set_fuel(u64::MAX);
        if cut {
            return Verdict::Skip("cut_by_fuel");
        }
        let ms = match r {
            Ok(v) => v,
            Err(p) => return Verdict::Fail(format!("{} panicked on arbitrary u16 input: {}", if ucs2 { "find_from_ucs2" } else { "find_from_utf16" }, panic_msg(p))),
        };
        if ms.len() > units.len() + 2 {
            return Verdict::Fail("more matches than positions".into());
        }
        for m in &ms {
            let mut all = vec![(m.s, m.e)];
            all.extend(m.caps.iter().flatten().copied());
            for (a, b) in all {
                if !(a <= b && b <= units.len()) {
                    return Verdict::Fail(format!("range {}..{} outside the slice of {} units", a, b, units.len()));
                }
                if !ucs2 && (in_pair(a) || in_pair(b)) {
                    // a range end between the halves of a well-formed pair (a caller-supplied start inside a pair is the caller's choice)
                    return Verdict::Fail(format!("utf16 range {}..{} ends between the two halves of a surrogate pair", a, b));
                }
            }
            // a start between the halves of a well-formed pair denotes the pair (utf16 only)
            let eff_start = if !ucs2 && in_pair(case.start) { case.start - 1 } else { case.start };
            if m.s < eff_start {
                return Verdict::Fail(format!("match at {} before the start offset {}", m.s, case.start));
            }
        }
        any |= !ms.is_empty();
    }
    if any {
        l.class("matched");
    }
    let lone = units.iter().enumerate().any(|(i, u)| ((0xD800..0xDC00).contains(u) && !units.get(i + 1).map(|n| (0xDC00..0xE000).contains(n)).unwrap_or(false)) || ((0xDC00..0xE000).contains(u) && !(i > 0 && (0xD800..0xDC00).contains(&units[i - 1]))));
    Verdict::Pass { nontrivial: lone && any }
}

fn gen_small(src: &mut Src, _t: Tier) -> Case {
    let v = super::c01::small_slice(true);
    v[(src.raw() as usize).min(v.len() - 1)].clone()
}

/// bounded-exhaustive: the small-pattern grammar of C01 with b spelled as U+1F600 (a surrogate pair in UTF-16),
/// flags - and u, all haystacks over {a, e-acute, U+1F600} up to length 3, starts 0 / second boundary / len+1
fn check_small(case: &Case, l: &mut Local) -> Verdict {
    static HAYS: std::sync::OnceLock<Vec<String>> = std::sync::OnceLock::new();
    let hays = HAYS.get_or_init(|| all_strings(&[0x61, 0xE9, 0x1F600], 3));
    let pat = respell_b(&case.pat, 0x1F600);
    let mut nontrivial = false;
    for fl in ["", "u"] {
        for h in hays {
            let second = h.chars().next().map(|c| c.len_utf8()).unwrap_or(0);
            for s in [0usize, second, h.len() + 1] {
                let c = Case { pat: pat.clone(), hay: h.clone(), start: s, flags: fl.to_string(), ..case.clone() };
                match check(&c, l) {
                    Verdict::Fail(m) => return Verdict::Fail(format!("/{}/{} on \"{}\" from {}: {}", show(&pat), fl, h, s, m)),
                    Verdict::Pass { nontrivial: n } => nontrivial |= n,
                    _ => {}
                }
            }
        }
    }
    Verdict::Pass { nontrivial }
}

pub static VX: Variant = Variant { name: "exhaustive_small_patterns", choice_len: 1, gen: gen_small, check: check_small };
pub static V: Variant = Variant { name: "utf16_vs_utf8", choice_len: 400, gen, check };
pub static VN: Variant = Variant { name: "u16_noise", choice_len: 400, gen: gen_noise, check: check_noise };

pub fn variants() -> Vec<&'static Variant> {
    vec![&V, &VN, &VX]
}

pub fn run(ctx: &Ctx) -> i32 {
    let slice = super::c01::small_slice(true);
    let part: Vec<Case> = slice.iter().enumerate().filter(|(i, _)| ctx.tier == Tier::Thorough || i % 16 == 0).map(|(_, c)| c.clone()).collect();
    ctx.run_list(&VX, &part);
    ctx.run_variant(&V, ctx.scale(400_000, 6_000_000));
    ctx.run_variant(&VN, ctx.scale(300_000, 4_000_000));
    if std::env::var("VERIF_SUMMARY_ONLY").is_err() {
        // the same case stream with debug assertions on (position / boundary invariants of the UTF-16 decoders)
        ctx.run_other_build("utf16+debug-assertions", "target-utf16/chk/check");
    }
    ctx.finish(
        "exploration",
        "(built with regress' utf16 feature) (bounded-exhaustive) the small-pattern grammar of C01 with b spelled as U+1F600 (a sixteenth of it in the quick tier), flags - and u, x all haystacks over {a, e-acute, U+1F600} up to length 3 x starts 0, second boundary, len+1; random ES patterns x Unicode strings over 1-4-byte alphabets incl. astral case pairs (Deseret, Adlam, Medefaidrin), BMP edges (D7FF/E000/FFFF/10000) x every start: find_from_utf16(encode_utf16(t), start16) with offsets translated back must equal find_from(t, start8) - all matches, all captures, opt and no_opt; on text without supplementary characters find_from_ucs2 as well. Arbitrary u16 slices (lone / reversed surrogates at both ends, noise biased to D800-DFFF) with any start <= len+1: both entry points must terminate (fuel), not panic, report ranges inside the slice, after the start, and (utf16) never between the halves of a well-formed pair. Non-trivial = supplementary text with a match / lone surrogates with a match.",
        &["the UTF-8 search of the same (utf16-feature) build is the reference; its own correctness is C01's concern", "fuel hook"],
    )
}
