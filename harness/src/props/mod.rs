pub mod c01;
pub mod c02;
pub mod c03;
pub mod c04;
pub mod c05;
pub mod c06;
pub mod c07;
pub mod c08;
pub mod c09;
pub mod c10;
pub mod c11;
pub mod c12;
pub mod sweep;
pub mod c13;
#[cfg(feature = "utf16")]
pub mod c14;
pub mod c15;
pub mod c16;
pub mod c17;
pub mod c18;
pub mod c19;
#[cfg(feature = "pattern")]
pub mod c20;
pub mod common;

use crate::drv::{Ctx, Variant};

pub fn variants(prop: &str) -> Vec<&'static Variant> {
    match prop {
        "C01" => c01::variants(),
        "C02" => c02::variants(),
        "C03" => c03::variants(),
        "C04" => c04::variants(),
        "C05" => c05::variants(),
        "C06" => c06::variants(),
        "C07" => c07::variants(),
        "C08" => c08::variants(),
        "C09" => c09::variants(),
        "C10" => c10::variants(),
        "C11" => c11::variants(),
        "C12" => c12::variants(),
        "C13" => c13::variants(),
        #[cfg(feature = "utf16")]
        "C14" => c14::variants(),
        #[cfg(feature = "pattern")]
        "C20" => c20::variants(),
        "C15" => c15::variants(),
        "C16" => c16::variants(),
        "C17" => c17::variants(),
        "C18" => c18::variants(),
        "C19" => c19::variants(),
        _ => vec![],
    }
}

pub fn run(prop: &str, ctx: &Ctx) -> Option<i32> {
    Some(match prop {
        "C01" => c01::run(ctx),
        "C02" => c02::run(ctx),
        "C03" => c03::run(ctx),
        "C04" => c04::run(ctx),
        "C05" => c05::run(ctx),
        "C06" => c06::run(ctx),
        "C07" => c07::run(ctx),
        "C08" => c08::run(ctx),
        "C09" => c09::run(ctx),
        "C10" => c10::run(ctx),
        "C11" => c11::run(ctx),
        "C12" => c12::run(ctx),
        "C13" => c13::run(ctx),
        #[cfg(feature = "utf16")]
        "C14" => c14::run(ctx),
        #[cfg(feature = "pattern")]
        "C20" => c20::run(ctx),
        "C15" => c15::run(ctx),
        "C16" => c16::run(ctx),
        "C17" => c17::run(ctx),
        "C18" => c18::run(ctx),
        "C19" => c19::run(ctx),
        _ => return None,
    })
}
