//! C19: a compiled Regex is immutable and safe to share. (a) is the sendsync_probe crate (built by ./check);
//! (b) history independence (this file); (c) threads (bin/c19threads.rs, spawned from here).

use super::common::*;
use crate::drv::*;
use crate::pat::*;
use crate::run::*;
use crate::src::Src;
use serde_json::{json, Value};

#[derive(Clone, Debug)]
pub struct Query {
    pub hay: String,
    pub start: usize,
    pub api: u8, // 0 find_from, 1 find_from_ascii (ASCII hay only), 2 pikevm
    pub take: usize,
    /// which of the case's regexes (0 = flags, 1 = flags2) the query goes to
    pub which: u8,
}

pub fn gen_queries(src: &mut Src, alpha: &[u32], node: &Node, fl: Fl, n: u32) -> Vec<Query> {
    let distinct = 1 + src.below(4);
    let hays: Vec<String> = (0..distinct).map(|_| if src.chance(1, 2) { witness_hay(src, node, fl, alpha, 3) } else { gen_hay(src, alpha, 10) }).collect();
    (0..n)
        .map(|_| {
            let hay = src.pick(&hays).clone();
            let start = gen_start(src, &hay);
            let api = if hay.is_ascii() { src.below(7) as u8 } else { *src.pick(&[0u8, 2, 3, 4, 5]) };
            let take = *src.pick(&[usize::MAX, usize::MAX, 0, 1, 2]);
            Query { hay, start, api, take, which: 0 }
        })
        .collect()
}

pub fn queries_json(qs: &[Query]) -> Value {
    Value::Array(qs.iter().map(|q| json!({"hay": q.hay, "start": q.start, "api": q.api, "which": q.which, "take": if q.take == usize::MAX { -1 } else { q.take as i64 }})).collect())
}

pub fn queries_from(v: &Value) -> Vec<Query> {
    v.as_array()
        .map(|a| {
            a.iter()
                .map(|q| Query {
                    hay: q["hay"].as_str().unwrap_or("").to_string(),
                    start: q["start"].as_u64().unwrap_or(0) as usize,
                    api: q["api"].as_u64().unwrap_or(0) as u8,
                    which: q["which"].as_u64().unwrap_or(0) as u8,
                    take: match q["take"].as_i64().unwrap_or(-1) {
                        -1 => usize::MAX,
                        n => n as usize,
                    },
                })
                .collect()
        })
        .unwrap_or_default()
}

pub fn run_query(re: &regress::Regex, q: &Query) -> Out {
    run_query_on(re, q, &q.hay)
}

/// `text` holds the query's haystack (possibly in a buffer that is re-used between queries, as a caller
/// reading fixed-width records into one String would do).
pub fn run_query_on(re: &regress::Regex, q: &Query, text: &str) -> Out {
    // the convenience entry points have their own code paths
    if q.api >= 3 {
        regress::verif::set_fuel(600_000);
        let r = std::panic::catch_unwind(std::panic::AssertUnwindSafe(|| match q.api {
            3 => re.find(text).map(|m| vec![M::from(&m)]).unwrap_or_default(),
            4 => {
                let s = re.replace(text, "[$0]");
                vec![M { s: s.len(), e: crate::src::fnv(s.as_bytes()) as usize, caps: vec![] }]
            }
            5 => {
                let s = re.replace_all(text, "<$1>");
                vec![M { s: s.len(), e: crate::src::fnv(s.as_bytes()) as usize, caps: vec![] }]
            }
            _ => {
                if text.is_ascii() {
                    re.find_ascii(text).map(|m| vec![M::from(&m)]).unwrap_or_default()
                } else {
                    vec![]
                }
            }
        }));
        let cut = regress::verif::report().exhausted;
        regress::verif::set_fuel(u64::MAX);
        return match r {
            Err(p) => Out::Panic(panic_msg(p)),
            Ok(_) if cut => Out::Cut,
            Ok(v) => Out::Ms(v),
        };
    }
    let q = &Query { hay: String::new(), ..q.clone() };
    let (eng, enc) = match q.api {
        1 if text.is_ascii() => (Engine::Bt, Enc::Ascii),
        2 => (Engine::Pike, Enc::Utf8),
        _ => (Engine::Bt, Enc::Utf8),
    };
    let lim = match_limit(text, q.start) + 2;
    match find_all(re, eng, enc, text, q.start, lim.min(q.take.saturating_sub(1)), 600_000) {
        // when `take` truncates, find_all reports Overrun after take items: normalise
        Out::Overrun(mut v) => {
            v.truncate(q.take.min(v.len()));
            Out::Ms(v)
        }
        o => o,
    }
}

pub fn gen_case(src: &mut Src, tier: Tier) -> Case {
    fn tweak(cfg: &mut GenCfg, _s: &mut Src) {
        cfg.max_depth = 3;
    }
    let g = gen_general(src, tier, 8, 10, tweak);
    let n = src.range(3, if tier == Tier::Quick { 12 } else { 20 });
    let qs = gen_queries(src, &g.alpha, &g.node, g.fl, n);
    let mut c = g.case;
    c.hay = String::new();
    c.start = 0;
    c.x = json!({ "queries": queries_json(&qs) });
    c
}

/// Two regexes from the same pattern under different flag sets (legacy i vs iu/iv), queried alternately: state that
/// leaks between *different* Regex objects (a process-wide memo) makes a result depend on which regex ran before.
pub fn gen_two(src: &mut Src, tier: Tier) -> Case {
    let alpha: Vec<u32> = src.pick(&[&[0x61u32, 0x41, 0x73, 0x53, 0x17F][..], &[0x6B, 0x4B, 0x212A, 0x61, 0x41][..], &[0x3C3, 0x3C2, 0x3A3, 0xDF, 0x1E9E][..], &[0xE9, 0xC9, 0x61, 0x41, 0x69, 0x49, 0x130, 0x131][..]]).to_vec();
    let fl = Fl { i: true, m: false, s: src.chance(1, 2), mode: Mode::Legacy };
    let fl2 = Fl { mode: *src.pick(&[Mode::U, Mode::V]), ..fl };
    let mut cfg = GenCfg::full(fl, alpha.clone());
    cfg.max_depth = 3;
    cfg.mods = false;
    cfg.props = false;
    cfg.classset = false;
    cfg.raw_escapes = false;
    let core = match src.below(3) {
        0 => Node::Cat(vec![Node::Group { name: None, body: Box::new(Node::Lit(gen_char(src, &cfg))) }, Node::BackRef(0)]),
        1 => Node::Cat(vec![Node::Group { name: None, body: Box::new(Node::Dot) }, gen_node(src, &cfg, 2), Node::BackRef(0)]),
        _ => gen_pattern(src, &cfg),
    };
    let pat = Printer::print(&core, Mode::Legacy);
    let n = src.range(4, if tier == Tier::Quick { 12 } else { 20 });
    let mut qs = gen_queries(src, &alpha, &core, fl, n);
    for q in qs.iter_mut() {
        q.which = src.below(2) as u8;
        if q.api == 1 || q.api == 6 {
            q.api = 0;
        }
    }
    Case { pat, flags: fl.text(), hay: String::new(), hay16: vec![], start: 0, x: json!({ "queries": queries_json(&qs), "flags2": fl2.text() }) }
}

pub fn check(case: &Case, l: &mut Local) -> Verdict {
    if case.x.get("flags2").is_some() {
        return check_two(case, l);
    }
    check_one(case, l)
}

fn check_two(case: &Case, l: &mut Local) -> Verdict {
    let fls = [Fl::parse(&case.flags), Fl::parse(case.x["flags2"].as_str().unwrap_or(""))];
    let qs = queries_from(&case.x["queries"]);
    let mut res = vec![];
    for f in fls {
        match compile(&case.pat, f, false) {
            Ok(r) => res.push(r),
            Err(e) if is_infra_err(&e) => return Verdict::Skip("compile_infra"),
            Err(_) => return Verdict::Skip("rejected"),
        }
    }
    // reference: every query on a freshly compiled regex, in forward order
    let mut fresh: Vec<Out> = vec![];
    for q in &qs {
        let f = match compile(&case.pat, fls[q.which as usize % 2], false) {
            Ok(r) => r,
            Err(_) => return Verdict::Skip("rejected"),
        };
        let o = run_query(&f, q);
        if o.is_cut() {
            return Verdict::Skip("cut_by_fuel");
        }
        fresh.push(o);
    }
    let mut buf = String::with_capacity(64);
    for pass in 0..3 {
        // forward, reverse, and "all queries of regex 1 first": the predecessor of each query changes
        let mut order: Vec<usize> = (0..qs.len()).collect();
        match pass {
            1 => order.reverse(),
            2 => order.sort_by_key(|i| 1 - qs[*i].which as i32),
            _ => {}
        }
        for i in order {
            buf.clear();
            buf.push_str(&qs[i].hay);
            let o = run_query_on(&res[qs[i].which as usize % 2], &qs[i], &buf);
            if o.is_cut() {
                return Verdict::Skip("cut_by_fuel");
            }
            if o != fresh[i] {
                return Verdict::Fail(format!(
                    "query {} ({:?}, flags {}) gives {} here but {} when it ran right after a fresh compile in forward order (pass {}): a search depends on what was searched before, across Regex objects",
                    i,
                    qs[i],
                    fls[qs[i].which as usize % 2].text(),
                    o.show(),
                    fresh[i].show(),
                    pass
                ));
            }
        }
    }
    let any = fresh.iter().any(|o| matches!(o, Out::Ms(v) if !v.is_empty()));
    if any {
        l.class("some_query_matched");
    }
    let both = qs.iter().any(|q| q.which == 0) && qs.iter().any(|q| q.which == 1);
    Verdict::Pass { nontrivial: both && any && qs.len() >= 3 }
}

fn check_one(case: &Case, l: &mut Local) -> Verdict {
    let fl = Fl::parse(&case.flags);
    let qs = queries_from(&case.x["queries"]);
    let re = match compile(&case.pat, fl, false) {
        Ok(r) => r,
        Err(e) if is_infra_err(&e) => return Verdict::Skip("compile_infra"),
        Err(_) => return Verdict::Skip("rejected"),
    };
    let snapshot = format!("{:?}", re);
    let clone_before = re.clone();
    // sequential reference: every query on a freshly compiled regex
    let mut fresh: Vec<Out> = vec![];
    for q in &qs {
        let f = match compile(&case.pat, fl, false) {
            Ok(r) => r,
            Err(_) => return Verdict::Fail("pattern compiled once but not twice".into()),
        };
        if format!("{:?}", f) != snapshot {
            return Verdict::Fail("two compilations of the same pattern differ (Debug dump)".into());
        }
        let o = run_query(&f, q);
        if o.is_cut() {
            return Verdict::Skip("cut_by_fuel");
        }
        fresh.push(o);
    }
    // long-lived regex, forward then backward order
    let mut buf = String::with_capacity(64);
    for pass in 0..2 {
        let order: Vec<usize> = if pass == 0 { (0..qs.len()).collect() } else { (0..qs.len()).rev().collect() };
        for i in order {
            // the haystack lives in a re-used buffer: same address, often the same length, different content
            buf.clear();
            buf.push_str(&qs[i].hay);
            let o = run_query_on(&re, &qs[i], &buf);
            if o.is_cut() {
                return Verdict::Skip("cut_by_fuel");
            }
            if o != fresh[i] {
                return Verdict::Fail(format!(
                    "query {} ({:?}) on the re-used Regex gives {} but on a fresh Regex {} (pass {})",
                    i,
                    qs[i],
                    o.show(),
                    fresh[i].show(),
                    pass
                ));
            }
        }
    }
    // two live iterators on the same Regex, interleaved
    if qs.len() >= 2 {
        let (a, b) = (&qs[0], &qs[1]);
        if a.hay.is_char_boundary(a.start.min(a.hay.len())) && b.hay.is_char_boundary(b.start.min(b.hay.len())) {
            regress::verif::set_fuel(1_200_000);
            let r = std::panic::catch_unwind(std::panic::AssertUnwindSafe(|| {
                let mut ia = re.find_from(&a.hay, a.start);
                let mut ib = re.find_from(&b.hay, b.start);
                let (mut va, mut vb) = (vec![], vec![]);
                let (mut da, mut db) = (false, false);
                let mut guard = 0;
                while !(da && db) && guard < 200 {
                    guard += 1;
                    if !da {
                        match ia.next() {
                            Some(m) => va.push(M::from(&m)),
                            None => da = true,
                        }
                    }
                    if !db {
                        match ib.next() {
                            Some(m) => vb.push(M::from(&m)),
                            None => db = true,
                        }
                    }
                }
                (va, vb)
            }));
            let cut = regress::verif::report().exhausted;
            regress::verif::set_fuel(u64::MAX);
            if !cut {
                match r {
                    Err(p) => return Verdict::Fail(format!("panic with two live iterators: {}", panic_msg(p))),
                    Ok((va, vb)) => {
                        for (q, v) in [(a, va), (b, vb)] {
                            let seq = find_all(&clone_before, Engine::Bt, Enc::Utf8, &q.hay, q.start, 300, 600_000);
                            if let Out::Ms(s) = seq {
                                if s != v {
                                    return Verdict::Fail(format!("interleaved iterators differ from sequential use: {} vs {}", show_ms(&v), show_ms(&s)));
                                }
                            }
                        }
                    }
                }
            }
        }
    }
    if format!("{:?}", re) != snapshot {
        return Verdict::Fail("Debug dump of the compiled Regex changed after searching (the compiled program was mutated)".into());
    }
    if format!("{:?}", clone_before) != snapshot {
        return Verdict::Fail("Debug dump of a clone differs from the original".into());
    }
    let distinct_hays: std::collections::HashSet<&str> = qs.iter().map(|q| q.hay.as_str()).collect();
    let dropped_midway = qs.iter().any(|q| q.take != usize::MAX);
    let any_match = fresh.iter().any(|o| matches!(o, Out::Ms(v) if !v.is_empty()));
    if any_match {
        l.class("some_query_matched");
    }
    Verdict::Pass { nontrivial: qs.len() >= 3 && distinct_hays.len() >= 2 && dropped_midway && any_match }
}

pub static V: Variant = Variant { name: "history_independence", choice_len: 500, gen: gen_case, check };
pub static V2: Variant = Variant { name: "two_regexes_interleaved", choice_len: 500, gen: gen_two, check };

pub fn variants() -> Vec<&'static Variant> {
    vec![&V, &V2]
}

pub fn run(ctx: &Ctx) -> i32 {
    ctx.run_variant(&V, ctx.scale(60_000, 1_000_000));
    // one shard at a time for this variant would hide nothing: the shards share the process, which is the point
    ctx.run_variant(&V2, ctx.scale(120_000, 2_000_000));
    // (c) threads: separate binary (it needs Regex: Sync to compile at all)
    let exe = std::env::current_exe().ok().and_then(|p| p.parent().map(|d| d.join("c19threads")));
    let rounds = ctx.scale(3_000, 60_000);
    match exe {
        Some(p) if p.exists() => {
            let out = std::process::Command::new(&p).arg(rounds.to_string()).arg(ctx.seed.to_string()).env("VERIF_CHILD", "1").output();
            match out {
                Ok(o) => {
                    let txt = String::from_utf8_lossy(&o.stdout).to_string();
                    let mut merged = false;
                    for line in txt.lines() {
                        if let Ok(v) = serde_json::from_str::<Value>(line) {
                            if v.get("c19threads").is_some() {
                                merged = true;
                                let mut agg = ctx.agg.lock().unwrap();
                                agg.evaluations += v["rounds"].as_u64().unwrap_or(0);
                                *agg.classes.entry("threads.rounds".into()).or_insert(0) += v["rounds"].as_u64().unwrap_or(0);
                                *agg.classes.entry("threads.rounds_with_4plus_threads_and_match".into()).or_insert(0) += v["nontrivial"].as_u64().unwrap_or(0);
                                *agg.classes.entry("threads.queries_executed_concurrently".into()).or_insert(0) += v["queries"].as_u64().unwrap_or(0);
                                if let Some(s) = v.get("sample") {
                                    agg.samples.push(json!({"variant": "threads", "case": s}));
                                }
                                let viols: Vec<Value> = v["violations"].as_array().cloned().unwrap_or_default();
                                drop(agg);
                                for w in viols {
                                    if let Some(c) = Case::from_json(&w["case"]) {
                                        ctx.add_violation("threads", &c, w["msg"].as_str().unwrap_or("thread result differs"));
                                    }
                                }
                            }
                        }
                    }
                    if !merged {
                        ctx.note(format!("c19threads produced no report (status {:?})", o.status.code()));
                        if !o.status.success() {
                            ctx.add_violation("threads", &Case::default(), &format!("threaded stress binary died abnormally: {:?}", o.status));
                        }
                    }
                }
                Err(e) => ctx.note(format!("c19threads could not be started: {}", e)),
            }
        }
        _ => ctx.note("c19threads binary not built; threaded part skipped".into()),
    }
    ctx.finish(
        "exploration",
        "(a) compile-time probe crate asserting Regex, Match, Error: Send + Sync (built before this check; a build failure is the violation). (b) stateful PBT: generated regex x generated history of 3-20 queries (haystack, start, entry point, how many matches are pulled before the iterator is dropped); each query on the long-lived Regex (forward and reverse order, plus two live interleaved iterators) must equal its result on a freshly compiled Regex (a second variant keeps TWO regexes of the same pattern under legacy-i and iu/iv flags and interleaves their queries in three different orders, so state leaking between different Regex objects shows as order dependence), and the Debug dump of the whole CompiledRegex must be byte-identical before and after. (c) 2-16 threads sharing &Regex / clones run generated shares of the query multiset in generated orders with generated yields; every result must equal the sequential one. Non-trivial (b) = history >= 3 queries, >= 2 distinct haystacks, an iterator dropped mid-way, some match; (c) = >= 4 threads and some match.",
        &["(c) samples only the schedules the OS produces: the code has no synchronisation for a schedule-controlling tool to steer; safety rests on (a)+(b)", "fuel hook"],
    )
}

pub fn tf_unused(_: &[u32]) -> TF {
    TF::default()
}
