//! C08: the accepted language is the ECMAScript RegExp grammar for the given flags (oracle: esref's parser).

use super::common::*;
use crate::drv::*;
use crate::esref;
use crate::pat::*;
use crate::run::*;
use crate::soup::*;
use crate::src::Src;

fn mk(pat: Vec<u32>, fl: Fl) -> Case {
    Case { pat, flags: fl.text(), hay: String::new(), hay16: vec![], start: 0, x: serde_json::Value::Null }
}

fn gen_soup_case(src: &mut Src, t: Tier) -> Case {
    let pat = gen_soup(src, if t == Tier::Quick { 10 } else { 12 });
    mk(pat, gen_flags_any(src))
}

fn gen_cross_mode(src: &mut Src, t: Tier) -> Case {
    // a valid pattern printed for one mode, compiled under another
    let g = gen_general(src, t, 0, 0, no_tweak);
    let fl = Fl { mode: *src.pick(&[Mode::Legacy, Mode::U, Mode::V]), ..g.fl };
    mk(g.case.pat, fl)
}

fn gen_mutated(src: &mut Src, t: Tier) -> Case {
    let g = gen_general(src, t, 0, 0, no_tweak);
    let mut pat = g.case.pat;
    mutate(src, &mut pat);
    mk(pat, g.fl)
}

fn gen_dupnames(src: &mut Src, _t: Tier) -> Case {
    // groups with names from a tiny pool in random structures: duplicates both legal and illegal
    let fl = gen_flags_any(src);
    fn node(src: &mut Src, d: u32) -> Node {
        let deep = d >= 4;
        match src.weighted(&[3, if deep { 0 } else { 4 }, if deep { 0 } else { 4 }, 4, 1, if deep { 0 } else { 1 }, 1]) {
            0 => Node::Lit(0x61),
            1 => Node::Alt((0..2 + src.below(2)).map(|_| node(src, d + 1)).collect()),
            2 => Node::Cat((0..2 + src.below(2)).map(|_| node(src, d + 1)).collect()),
            3 => Node::Group { name: Some((*src.pick(&["a", "b"])).to_string()), body: Box::new(node(src, d + 1)) },
            4 => Node::NamedRef(src.below(2)),
            5 => Node::Look { behind: src.chance(1, 2), neg: src.chance(1, 2), body: Box::new(node(src, d + 1)) },
            _ => Node::Quant { body: Box::new(Node::NonCap(Box::new(node(src, d + 1)))), min: 0, max: Some(1), lazy: false, braces: false },
        }
    }
    let n = node(src, 0);
    mk(Printer::print(&n, fl.mode), fl)
}

const CURATED: &[(&str, &str)] = &[
    ("a{", "u"), ("\\-", "u"), ("[z-a]", ""), ("(?<=a)*", ""), ("(?<=a)*", "u"), ("\\k<x>", "u"), ("\\8", ""), ("\\8", "u"), ("(?<a>.)(?<a>.)", ""),
    ("(?<a>.)|(?<a>.)", ""), ("[a-\\d]", "u"), ("[a-\\d]", ""), ("\\p{Foo}", "u"), ("\\P{RGI_Emoji}", "v"), ("\\p{RGI_Emoji}", "u"), ("\\p{RGI_Emoji}", "v"),
    ("\\b+", ""), ("\\B{2}", ""), ("^*", ""), ("$+", "u"), ("(?=a)*", ""), ("(?=a)*", "u"), ("a**", ""), ("a{2,1}", ""), ("{1}", ""), ("{", ""), ("}", ""), ("]", ""),
    ("{", "u"), ("}", "u"), ("]", "u"), ("a{1", ""), ("a{1", "u"), ("\\c", ""), ("\\c", "u"), ("\\c1", ""), ("[\\c1]", ""), ("[\\c]", ""), ("\\u{41}", ""), ("\\u{41}", "u"),
    ("\\u{110000}", "u"), ("\\x4", ""), ("\\x4", "u"), ("\\0", "u"), ("\\00", "u"), ("\\00", ""), ("\\1", ""), ("\\1", "u"), ("(a)\\2", ""), ("(a)\\2", "u"),
    ("\\k<a>", ""), ("(?<a>)\\k<b>", ""), ("(?<a>)\\k<a>", ""), ("\\k", ""), ("(?<a>)\\k", ""), ("[\\k]", ""), ("(?<a>)[\\k]", ""), ("(?i:a)", ""), ("(?i-i:a)", ""),
    ("(?-:a)", ""), ("(?ii:a)", ""), ("(?i-m:a)", "u"), ("(?x:a)", ""), ("(?i)", ""), ("[a&&b]", "v"), ("[a&&&b]", "v"), ("[a--b--c]", "v"), ("[a&&b--c]", "v"),
    ("[a-z&&b]", "v"), ("[(]", "v"), ("[a|b]", "v"), ("[a-]", "v"), ("[a-]", "u"), ("[-a]", "v"), ("[\\-a]", "v"), ("[&&]", "v"), ("[a&b]", "v"), ("[!!]", "v"),
    ("[^\\q{ab}]", "v"), ("[^\\q{a}]", "v"), ("[^[\\q{ab}]]", "v"), ("[^\\q{ab}&&a]", "v"), ("[^\\q{ab}--\\q{ab}]", "v"), ("[\\q{}]", "v"), ("\\q{a}", "v"),
    ("[^\\p{RGI_Emoji}]", "v"), ("[\\p{RGI_Emoji}--\\q{a}]", "v"), ("(?:(?<a>x)|y)(?:z|(?<a>w))", ""), ("(?:(?<a>x)|(?<a>y))\\k<a>", ""), ("((?<a>x))|(?<a>y)", ""),
    ("(?<a>x)(?:y|(?<a>z))", ""), ("\\p{Lu}", ""), ("\\p{lu}", "u"), ("\\p{ Lu}", "u"), ("\\p{gc=Lu}", "u"), ("\\p{Script=Greek}", "u"), ("\\p{sc=Grek}", "u"),
    ("\\p{scx=Greek}", "u"), ("\\p{Greek}", "u"), ("\\p{Script=Lu}", "u"), ("\\p{gc=Greek}", "u"), ("\\p{IsLu}", "u"), ("\\p{Block=Basic_Latin}", "u"), ("\\p{Any}", "u"),
    ("\\p{ASCII}", "u"), ("\\p{Assigned}", "u"), ("\\p{Other_Alphabetic}", "u"), ("\\p{Line_Break}", "u"), ("\\p{=Lu}", "u"), ("\\p{Lu=}", "u"), ("\\p{}", "u"), ("\\p", "u"),
    ("\\pL", "u"), ("(?<𝒜>a)", ""), ("(?<\\u{1D49C}>a)", ""), ("(?<\\uD835\\uDC9C>a)", ""), ("(?<a\\uD800>x)", ""), ("(?<1a>x)", ""), ("(?<a-b>x)", ""), ("(?<>x)", ""),
    ("(?<a", ""), ("(", ""), (")", ""), ("(?", ""), ("(?<", ""), ("[", ""), ("\\", ""), ("a|*", ""), ("a|+", "u"), ("(?:)*", ""), ("()*", "u"), ("[]*", ""), ("[^]+", "u"),
];

fn gen_curated(src: &mut Src, _t: Tier) -> Case {
    let (p, f) = CURATED[(src.raw() as usize).min(CURATED.len() - 1)];
    mk(p.chars().map(|c| c as u32).collect(), Fl::parse(f))
}

pub fn check(case: &Case, l: &mut Local) -> Verdict {
    let fl = Fl::parse(&case.flags);
    let want = esref::accepts(&case.pat, fl);
    if let Err(e) = &want {
        if e.contains("reference model limit") {
            return Verdict::Skip("reference_limit");
        }
    }
    let mut res = vec![];
    for no_opt in [false, true] {
        match compile(&case.pat, fl, no_opt) {
            Ok(_) => res.push(true),
            Err(e) if e.starts_with("PANIC") => return Verdict::Fail(format!("compile panicked: {}", e)),
            Err(e) if is_infra_err(&e) => return Verdict::Skip("compile_fuel"),
            Err(_) => res.push(false),
        }
    }
    if res[0] != res[1] {
        return Verdict::Fail(format!("accepted with optimizer: {}, without: {}", res[0], res[1]));
    }
    let got = res[0];
    match (&want, got) {
        (Ok(()), true) => l.class("both_accept"),
        (Err(_), false) => l.class("both_reject"),
        (Ok(()), false) => {
            if let Some(id) = crate::kf::explain_accept(&case.pat, fl, got) {
                return Verdict::Known(id);
            }
            return Verdict::Fail("regress rejects a pattern that is valid ECMAScript for these flags".to_string());
        }
        (Err(e), true) => {
            if let Some(id) = crate::kf::explain_accept(&case.pat, fl, got) {
                return Verdict::Known(id);
            }
            return Verdict::Fail(format!("regress accepts a pattern that ECMAScript rejects ({})", e));
        }
    }
    let sig = case.pat.iter().filter(|c| matches!(char::from_u32(**c), Some('(' | '[' | '{' | '\\' | '|' | '*' | '+' | '?' | ')' | ']' | '}' | '^' | '$'))).count();
    Verdict::Pass { nontrivial: sig >= 2 }
}

// ---- bounded-exhaustive: every sequence of up to 3 tokens of a 71-token core set, under -, u and v
const CORE: &[&str] = &[
    "a", "(", ")", "(?:", "(?=", "(?!", "(?<=", "(?<!", "(?<n>", "(?i:", "(?-i:", "(?", "[", "]", "[^", "{", "}", "{1}", "{1,}", "{2,1}", "{,1}", "*", "+", "?", "|", "^", "$", ".", "\\b", "\\B",
    "\\1", "\\2", "\\k<n>", "\\k", "\\d", "\\p{L}", "\\p{X}", "\\P", "\\u0061", "\\u", "\\uD83D", "\\x4", "\\c", "\\cA", "\\0", "\\01", "\\8", "\\-", "-", "&&", "--", "\\q{a}", "\\q{ab|c}", ",", ":", "=",
    "!", "<", ">", "\\", "/", "\\/", "1", "\u{1F600}", "\\q{a|}", "\\q{}", "\\4294967297", "\\47", "7", "(?i-:", "(?<n>a)",
];

pub fn core_cases(tier: Tier) -> Vec<Case> {
    let mut out = vec![];
    let n = CORE.len();
    let mut push = |s: String| {
        for f in ["", "u", "v"] {
            out.push(mk(s.chars().map(|c| c as u32).collect(), Fl::parse(f)));
        }
    };
    push(String::new());
    for a in 0..n {
        push(CORE[a].to_string());
        for b in 0..n {
            push(format!("{}{}", CORE[a], CORE[b]));
            for c in 0..n {
                push(format!("{}{}{}", CORE[a], CORE[b], CORE[c]));
                // thorough: quadruples over the first 40 tokens
                if tier == Tier::Thorough && a < 40 && b < 40 && c < 40 {
                    for d in 0..40 {
                        push(format!("{}{}{}{}", CORE[a], CORE[b], CORE[c], CORE[d]));
                    }
                }
            }
        }
    }
    out
}

pub fn gen_core(src: &mut Src, _t: Tier) -> Case {
    let k = 1 + src.below(4);
    let s: String = (0..k).map(|_| *src.pick(CORE)).collect();
    mk(s.chars().map(|c| c as u32).collect(), Fl::parse(*src.pick(&["", "u", "v"])))
}

// ---- the documented resource limits are 65535 capture groups and 65535 loops: a valid pattern AT the limit compiles
// (what happens above it is C07's business: Ok or Err, never a crash)
fn limit_cases() -> Vec<Case> {
    let mut out = vec![];
    for n in [65534usize, 65535] {
        for (unit, f) in [("()", ""), ("(a)", "u"), ("(?:a)?", ""), ("a*", "v"), ("(a)?", ""), ("(?=(a))", "u")] {
            // (a)? uses one group and one loop per unit; the lookahead unit one group
            out.push(Case { x: serde_json::json!({"unit": unit, "n": n}), flags: f.to_string(), ..Default::default() });
        }
    }
    out
}

fn gen_limit(src: &mut Src, _t: Tier) -> Case {
    let v = limit_cases();
    v[(src.raw() as usize).min(v.len() - 1)].clone()
}

fn check_limit(case: &Case, _l: &mut Local) -> Verdict {
    let unit = case.x["unit"].as_str().unwrap_or("()");
    let n = case.x["n"].as_u64().unwrap_or(1) as usize;
    let pat: Vec<u32> = unit.repeat(n).chars().map(|c| c as u32).collect();
    regress::verif::set_fuel(u64::MAX);
    let r = std::panic::catch_unwind(|| regress::Regex::from_unicode(pat.iter().copied(), Fl::parse(&case.flags).regress(false)).map(|_| ()));
    match r {
        Ok(Ok(())) => Verdict::Pass { nontrivial: true },
        Ok(Err(e)) => Verdict::Fail(format!("{} x {} (flags \"{}\") is a valid pattern within the documented limits (65535 groups, 65535 loops) but is rejected: {}", unit, n, case.flags, e.text)),
        Err(_) => Verdict::Fail(format!("{} x {} panicked", unit, n)),
    }
}

pub static V_LIMIT: Variant = Variant { name: "at_documented_limits", choice_len: 1, gen: gen_limit, check: check_limit };
pub static V_CORE: Variant = Variant { name: "exhaustive_token_triples", choice_len: 5, gen: gen_core, check };
pub static V_SOUP: Variant = Variant { name: "token_soup", choice_len: 60, gen: gen_soup_case, check };
pub static V_CROSS: Variant = Variant { name: "cross_mode", choice_len: 400, gen: gen_cross_mode, check };
pub static V_MUT: Variant = Variant { name: "mutated_valid", choice_len: 400, gen: gen_mutated, check };
pub static V_DUP: Variant = Variant { name: "duplicate_names", choice_len: 200, gen: gen_dupnames, check };
pub static V_CUR: Variant = Variant { name: "curated_early_errors", choice_len: 1, gen: gen_curated, check };

pub fn variants() -> Vec<&'static Variant> {
    vec![&V_SOUP, &V_CROSS, &V_MUT, &V_DUP, &V_CUR, &V_CORE, &V_LIMIT]
}

pub fn run(ctx: &Ctx) -> i32 {
    esref::selftest::ensure();
    let cur: Vec<Case> = CURATED.iter().map(|(p, f)| mk(p.chars().map(|c| c as u32).collect(), Fl::parse(f))).collect();
    ctx.run_list(&V_CUR, &cur);
    ctx.run_list(&V_LIMIT, &limit_cases());
    ctx.run_list(&V_CORE, &core_cases(ctx.tier));
    ctx.run_variant(&V_SOUP, ctx.scale(1_500_000, 20_000_000));
    ctx.run_variant(&V_CROSS, ctx.scale(300_000, 4_000_000));
    ctx.run_variant(&V_MUT, ctx.scale(500_000, 8_000_000));
    ctx.run_variant(&V_DUP, ctx.scale(300_000, 4_000_000));
    ctx.finish(
        "exploration",
        "patterns of 65534 and 65535 groups / loops (the documented limits) must compile; (bounded-exhaustive) EVERY sequence of up to 3 tokens from a 71-token core (all group openers, brackets, quantifier shapes incl. malformed ones, anchors, the escape families incl. truncated ones, v-mode operators, \\q, punctuation) under -, u and v: 800k patterns (thorough: plus every quadruple over the first 40 tokens, 7.7M); token soup (1-10 fragments from ~230 syntax fragments: every bracket, quantifier shape, escape family, group opener incl. modifiers and names, v-mode operators and reserved punctuators, property names valid and invalid) x 24 flag sets; valid patterns printed for one mode and compiled under another; single-edit mutations of valid patterns; random placements of groups named a/b (legal and illegal duplicates) with \\k references; a curated list of ~150 early-error cases from the specification. Oracle: the reference model's parser (ES2025 grammar + Annex B + all static early errors), whose accept/reject agrees with V8 on 200k such strings (modifiers aside) and is re-checked against a frozen V8 corpus on every run. Both directions are judged. Non-trivial = at least two syntax-significant characters; classes report the accept/reject balance.",
        &["esref parser is the trusted base (validated against V8 for legacy/u/v; modifiers and duplicate names by spec reading)", "property names: the set V8/ICU 78 (Unicode 17) accepts, exported to oracle/v8_names.tsv"],
    )
}
