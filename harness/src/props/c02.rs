//! C02: backtracking and PikeVM executors return identical match sequences.

use super::common::*;
use crate::drv::*;
use crate::pat::*;
use crate::run::*;
use crate::src::Src;

fn gen(src: &mut Src, tier: Tier) -> Case {
    gen_general(src, tier, 10, 16, no_tweak).case
}

fn gen_ascii(src: &mut Src, tier: Tier) -> Case {
    fn tweak(cfg: &mut GenCfg, src: &mut Src) {
        // ASCII haystacks, but patterns may still mention non-ASCII characters
        let ascii: Vec<u32> = cfg.alpha.iter().copied().filter(|c| *c < 0x80).collect();
        if ascii.len() >= 2 && src.chance(3, 4) {
            cfg.alpha = ascii;
        }
    }
    let mut g = gen_general(src, tier, 10, 16, tweak);
    g.case.hay = g.case.hay.chars().filter(|c| c.is_ascii()).collect();
    if g.case.start > g.case.hay.len() + 1 {
        g.case.start = 0;
    }
    g.case
}

/// Sequences of single-character loops (the Loop1CharBody fast path both executors special-case),
/// greedy and lazy, with finite and infinite bounds, separated by literals / groups / backrefs.
fn gen_scm(src: &mut Src, tier: Tier) -> Case {
    let fl = Fl::gen(src);
    let alpha = gen_alphabet(src);
    let cfg = GenCfg::full(fl, alpha.clone());
    let n = 2 + src.below(4);
    let mut items = vec![];
    for _ in 0..n {
        let body = match src.weighted(&[4, 3, 2, 2]) {
            0 => Node::Lit(gen_char(src, &cfg)),
            1 => Node::Dot,
            2 => gen_class(src, &cfg),
            _ => Node::Esc(*src.pick(b"dwsDWS")),
        };
        // counts above 5 are not unrolled by the optimizer: the loop instruction itself must count them
        let (min, max) = *src.pick(&[(0, None), (1, None), (0, Some(1)), (1, Some(2)), (0, Some(2)), (2, Some(3)), (2, None), (1, Some(1)), (0, Some(3)), (6, Some(8)), (6, Some(6)), (7, None), (5, Some(9)), (6, Some(7))]);
        let q = Node::Quant { body: Box::new(body), min, max, lazy: src.chance(1, 2), braces: src.chance(1, 3) };
        items.push(match src.weighted(&[6, 2, 1, 1]) {
            0 => q,
            1 => Node::Group { name: None, body: Box::new(q) },
            2 => Node::Cat(vec![q, Node::BackRef(src.below(4))]),
            _ => Node::Quant { body: Box::new(Node::NonCap(Box::new(q))), min: 0, max: Some(2), lazy: src.chance(1, 2), braces: false },
        });
        if src.chance(1, 3) {
            items.push(Node::Lit(gen_char(src, &cfg)));
        }
    }
    let mut node = Node::Cat(items);
    if src.chance(1, 4) {
        node = Node::Look { behind: true, neg: false, body: Box::new(node) };
        node = Node::Cat(vec![Node::Dot, node]);
    }
    let pat = Printer::print(&node, fl.mode);
    let hay = match src.below(3) {
        0 => witness_hay(src, &node, fl, &alpha, 3),
        1 => {
            // long runs of one character (more than any finite max) followed by a little noise
            let c = *src.pick(&alpha);
            let mut v: Vec<u32> = (0..src.range(5, 14)).map(|_| c).collect();
            for _ in 0..src.below(4) {
                v.push(*src.pick(&alpha));
            }
            cps_to_string(&v)
        }
        _ => gen_hay(src, &alpha, if tier == Tier::Quick { 10 } else { 14 }),
    };
    let start = gen_start(src, &hay);
    Case { pat, flags: fl.text(), hay, hay16: vec![], start, x: serde_json::Value::Null }
}

pub fn check(case: &Case, l: &mut Local) -> Verdict {
    let fl = Fl::parse(&case.flags);
    let t = tf(&case.pat);
    let mut any_match = false;
    let mut compiled = 0;
    for no_opt in [false, true] {
        let re = match compile(&case.pat, fl, no_opt) {
            Ok(re) => re,
            Err(e) if is_infra_err(&e) => return Verdict::Skip("compile_infra"),
            Err(_) => continue,
        };
        compiled += 1;
        if !case.hay.is_char_boundary(case.start.min(case.hay.len())) {
            return Verdict::Skip("bad_start");
        }
        let lim = match_limit(&case.hay, case.start) + 4;
        let mut encs = vec![Enc::Utf8];
        if case.hay.is_ascii() {
            encs.push(Enc::Ascii);
        }
        for enc in encs {
            let a = find_all(&re, Engine::Bt, enc, &case.hay, case.start, lim, DEFAULT_FUEL);
            let b = find_all(&re, Engine::Pike, enc, &case.hay, case.start, lim, DEFAULT_FUEL);
            if a.is_cut() || b.is_cut() {
                l.class("cut_by_fuel");
                return Verdict::Skip("cut_by_fuel");
            }
            if a != b {
                return Verdict::Fail(format!(
                    "executors differ ({:?}, {}): backtrack={} pikevm={}",
                    enc,
                    if no_opt { "no_opt" } else { "opt" },
                    a.show(),
                    b.show()
                ));
            }
            if let Out::Ms(v) = &a {
                if !v.is_empty() {
                    any_match = true;
                }
            }
        }
    }
    if compiled == 0 {
        return Verdict::Skip("rejected");
    }
    if any_match {
        l.class("matched");
    }
    if t.backref {
        l.class("has_backref");
    }
    if t.lookbehind {
        l.class("has_lookbehind");
    }
    if t.lazy {
        l.class("has_lazy");
    }
    if case.start > 0 {
        l.class("start_gt_0");
    }
    Verdict::Pass { nontrivial: any_match && t.split }
}

fn gen_small(src: &mut Src, _t: Tier) -> Case {
    let v = super::c01::small_slice(true);
    v[(src.raw() as usize).min(v.len() - 1)].clone()
}

/// the bounded-exhaustive small-pattern slice of C01, here judged by executor agreement on full match sequences
fn check_small(case: &Case, l: &mut Local) -> Verdict {
    static HAYS: std::sync::OnceLock<Vec<String>> = std::sync::OnceLock::new();
    check_small_on(case, HAYS.get_or_init(|| all_strings(&[0x61, 0x62], 4)), l)
}

fn gen_flag(src: &mut Src, _t: Tier) -> Case {
    let v = super::c01::flag_slice();
    v[(src.raw() as usize).min(v.len() - 1)].clone()
}

fn check_flag(case: &Case, l: &mut Local) -> Verdict {
    static HAYS: std::sync::OnceLock<Vec<String>> = std::sync::OnceLock::new();
    check_small_on(case, HAYS.get_or_init(|| all_strings(&[0x61, 0x41, 0x0A], 3)), l)
}

fn check_small_on(case: &Case, hays: &[String], l: &mut Local) -> Verdict {
    let fl = Fl::parse(&case.flags);
    let mut any = false;
    for no_opt in [false, true] {
        let re = match compile(&case.pat, fl, no_opt) {
            Ok(r) => r,
            Err(_) => return Verdict::Skip("rejected"),
        };
        for h in hays {
            for enc in [Enc::Utf8, Enc::Ascii] {
                let a = find_all(&re, Engine::Bt, enc, h, 0, 8, 2_000_000);
                let b = find_all(&re, Engine::Pike, enc, h, 0, 8, 2_000_000);
                if a.is_cut() || b.is_cut() {
                    continue;
                }
                if a != b {
                    return Verdict::Fail(format!("executors differ on \"{}\" ({:?}, {}): backtrack={} pikevm={}", show_str(h), enc, if no_opt { "no_opt" } else { "opt" }, a.show(), b.show()));
                }
                if let Out::Ms(v) = &a {
                    any |= !v.is_empty();
                }
            }
        }
    }
    l.add("pattern_haystack_pairs", 4 * hays.len() as u64);
    Verdict::Pass { nontrivial: any }
}

pub static V_SMALL: Variant = Variant { name: "exhaustive_small_patterns", choice_len: 1, gen: gen_small, check: check_small };
pub static V_THEMED: Variant = Variant { name: "themed", choice_len: 400, gen: super::c01::gen_themed, check };
pub static V_FLAG: Variant = Variant { name: "exhaustive_flag_slice", choice_len: 1, gen: gen_flag, check: check_flag };
pub static V_GENERAL: Variant = Variant { name: "general", choice_len: 400, gen, check };
pub static V_ASCII: Variant = Variant { name: "ascii_hay", choice_len: 400, gen: gen_ascii, check };
pub static V_SCM: Variant = Variant { name: "single_char_loops", choice_len: 300, gen: gen_scm, check };

pub fn variants() -> Vec<&'static Variant> {
    vec![&V_GENERAL, &V_ASCII, &V_SCM, &V_SMALL, &V_FLAG, &V_THEMED]
}

pub fn run(ctx: &Ctx) -> i32 {
    ctx.run_list(&V_SMALL, super::c01::small_slice(true));
    ctx.run_list(&V_FLAG, super::c01::flag_slice());
    ctx.run_variant(&V_GENERAL, ctx.scale(600_000, 10_000_000));
    ctx.run_variant(&V_ASCII, ctx.scale(300_000, 4_000_000));
    ctx.run_variant(&V_SCM, ctx.scale(300_000, 4_000_000));
    ctx.run_variant(&V_THEMED, ctx.scale(300_000, 4_000_000));
    ctx.finish(
        "exploration",
        "(bounded-exhaustive) the 141k patterns of the small grammar of C01 x all haystacks in {a,b}^<=4 x both pipelines x UTF-8/ASCII, full match sequences; the flag slice of C01 (200k pattern/flag combinations, all 16 i,m,s x legacy/u sets) x all haystacks over {a, A, LF} up to length 3; plus the 18 themed shapes of C01's generator (nested empty-matchable quantifiers, self-referencing groups in lookbehind, lookaround towers, counted alternation loops in lookbehind, scoped-m anchored alternations, string sets under iv, ...) and random ES patterns (valid by construction, all 24 flag sets, themed alphabets) x haystacks x start offsets; both pipelines (opt/no_opt), UTF-8 and (on ASCII haystacks) ASCII entry points; oracle = differential between the two executors on the same compiled program. Non-trivial = at least one match found and the pattern contains a split (alternation or quantifier); distinct by hash of (pattern, flags, haystack, start).",
        &["fuel hook cuts runaway searches (counted, never judged)", "both executors share parser/optimizer/emitter: this check says nothing about agreement with ECMAScript (C01)"],
    )
}
