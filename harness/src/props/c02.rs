//! C02: backtracking and PikeVM executors return identical match sequences.

use super::common::*;
use crate::drv::*;
use crate::pat::*;
use crate::run::*;
use crate::src::Src;

fn gen(src: &mut Src, tier: Tier) -> Case {
    gen_general(src, tier, 10, 16, no_tweak).case
}

fn gen_ascii(src: &mut Src, tier: Tier) -> Case {
    fn tweak(cfg: &mut GenCfg, src: &mut Src) {
        // ASCII haystacks, but patterns may still mention non-ASCII characters
        let ascii: Vec<u32> = cfg.alpha.iter().copied().filter(|c| *c < 0x80).collect();
        if ascii.len() >= 2 && src.chance(3, 4) {
            cfg.alpha = ascii;
        }
    }
    let mut g = gen_general(src, tier, 10, 16, tweak);
    g.case.hay = g.case.hay.chars().filter(|c| c.is_ascii()).collect();
    if g.case.start > g.case.hay.len() + 1 {
        g.case.start = 0;
    }
    g.case
}

pub fn check(case: &Case, l: &mut Local) -> Verdict {
    let fl = Fl::parse(&case.flags);
    let t = tf(&case.pat);
    let mut any_match = false;
    let mut compiled = 0;
    for no_opt in [false, true] {
        let re = match compile(&case.pat, fl, no_opt) {
            Ok(re) => re,
            Err(e) if is_infra_err(&e) => return Verdict::Skip("compile_infra"),
            Err(_) => continue,
        };
        compiled += 1;
        if !case.hay.is_char_boundary(case.start.min(case.hay.len())) {
            return Verdict::Skip("bad_start");
        }
        let lim = match_limit(&case.hay, case.start) + 4;
        let mut encs = vec![Enc::Utf8];
        if case.hay.is_ascii() {
            encs.push(Enc::Ascii);
        }
        for enc in encs {
            let a = find_all(&re, Engine::Bt, enc, &case.hay, case.start, lim, DEFAULT_FUEL);
            let b = find_all(&re, Engine::Pike, enc, &case.hay, case.start, lim, DEFAULT_FUEL);
            if a.is_cut() || b.is_cut() {
                l.class("cut_by_fuel");
                return Verdict::Skip("cut_by_fuel");
            }
            if a != b {
                return Verdict::Fail(format!(
                    "executors differ ({:?}, {}): backtrack={} pikevm={}",
                    enc,
                    if no_opt { "no_opt" } else { "opt" },
                    a.show(),
                    b.show()
                ));
            }
            if let Out::Ms(v) = &a {
                if !v.is_empty() {
                    any_match = true;
                }
            }
        }
    }
    if compiled == 0 {
        return Verdict::Skip("rejected");
    }
    if any_match {
        l.class("matched");
    }
    if t.backref {
        l.class("has_backref");
    }
    if t.lookbehind {
        l.class("has_lookbehind");
    }
    if t.lazy {
        l.class("has_lazy");
    }
    if case.start > 0 {
        l.class("start_gt_0");
    }
    Verdict::Pass { nontrivial: any_match && t.split }
}

pub static V_GENERAL: Variant = Variant { name: "general", choice_len: 400, gen, check };
pub static V_ASCII: Variant = Variant { name: "ascii_hay", choice_len: 400, gen: gen_ascii, check };

pub fn variants() -> Vec<&'static Variant> {
    vec![&V_GENERAL, &V_ASCII]
}

pub fn run(ctx: &Ctx) -> i32 {
    ctx.run_variant(&V_GENERAL, ctx.scale(60_000, 1_500_000));
    ctx.run_variant(&V_ASCII, ctx.scale(30_000, 500_000));
    ctx.finish(
        "exploration",
        "random ES patterns (valid by construction, all 24 flag sets, themed alphabets) x haystacks x start offsets; both pipelines (opt/no_opt), UTF-8 and (on ASCII haystacks) ASCII entry points; oracle = differential between the two executors on the same compiled program. Non-trivial = at least one match found and the pattern contains a split (alternation or quantifier); distinct by hash of (pattern, flags, haystack, start).",
        &["fuel hook cuts runaway searches (counted, never judged)", "both executors share parser/optimizer/emitter: this check says nothing about agreement with ECMAScript (C01)"],
    )
}
