//! C04: the start-position prefilter is transparent.

use super::c03::x_alpha;
use super::common::*;
use crate::drv::*;
use crate::pat::*;
use crate::run::*;
use crate::src::Src;
use serde_json::json;

/// Patterns whose *beginnings* vary.
fn gen_head(src: &mut Src, cfg: &GenCfg, depth: u32) -> Node {
    let lit = |src: &mut Src| -> Node {
        let n = 1 + src.weighted(&[4, 3, 2, 1]);
        Node::Cat((0..n).map(|_| Node::Lit(gen_char(src, cfg))).collect())
    };
    if depth > 2 {
        return lit(src);
    }
    match src.weighted(&[4, 4, 2, 2, 2, 2, 2, 2, 1, 1]) {
        0 => lit(src),
        1 => {
            let n = 2 + src.below(3);
            Node::Alt((0..n).map(|_| if src.chance(1, 8) { Node::Empty } else { gen_head(src, cfg, depth + 1) }).collect())
        }
        2 => {
            let body = gen_head(src, cfg, depth + 1);
            let (min, max) = *src.pick(&[(0, Some(1)), (0, None), (1, None), (0, Some(2)), (1, Some(2)), (2, Some(2)), (0, Some(0))]);
            Node::Quant { body: Box::new(body), min, max, lazy: src.chance(1, 3), braces: false }
        }
        3 => Node::Cat(vec![
            Node::Look { behind: src.chance(1, 2), neg: src.chance(1, 3), body: Box::new(gen_head(src, cfg, depth + 1)) },
            gen_head(src, cfg, depth + 1),
        ]),
        4 => gen_class(src, cfg),
        5 => Node::Group { name: None, body: Box::new(gen_head(src, cfg, depth + 1)) },
        6 => Node::Cat(vec![*Box::new(if src.chance(1, 2) { Node::Bol } else { Node::Wb }), gen_head(src, cfg, depth + 1)]),
        7 => Node::Mods { on: *src.pick(&[1u8, 2, 3]), off: 0, body: Box::new(Node::Cat(vec![if src.chance(1, 2) { Node::Bol } else { Node::Empty }, gen_head(src, cfg, depth + 1)])) },
        8 => Node::Class { neg: true, items: (0..src.range(0, 3)).map(|_| gen_class_item(src, cfg)).collect() },
        _ => gen_node(src, cfg, 2),
    }
}

fn gen(src: &mut Src, _tier: Tier) -> Case {
    let mut fl = Fl::gen(src);
    if src.chance(1, 2) {
        fl.m = src.chance(1, 2);
    }
    let alpha = if src.chance(1, 3) {
        // members with different UTF-8 lead bytes
        src.pick(&[&[0x6B, 0x4B, 0x212A, 0x61][..], &[0x73, 0x17F, 0x53, 0x7A][..], &[0x7F, 0x80, 0x7FF, 0x800][..], &[0xFFFF, 0x10000, 0xE000, 0x61][..], &[0x61, 0xE9, 0x20AC, 0x1F600][..]]).to_vec()
    } else {
        gen_alphabet(src)
    };
    let cfg = GenCfg::full(fl, alpha);
    let head = gen_head(src, &cfg, 0);
    let mut node = if src.chance(1, 2) { Node::Cat(vec![head, gen_node(src, &cfg, 2)]) } else { head };
    let mut c = 0;
    uniquify_names(&mut node, &mut c);
    let pat = Printer::print(&node, fl.mode);
    let mut alpha = relevant_alphabet(&pat, &cfg.alpha, 3);
    let foreign = *src.pick(&[0x7A, 0x0A, 0x20, 0xE9, 0x1F600, 0x2028]);
    if !alpha.contains(&foreign) && alpha.len() < 4 {
        alpha.push(foreign);
    }
    let nh = src.range(2, 5);
    let hays: Vec<String> = (0..nh).map(|_| witness_hay(src, &node, fl, &cfg.alpha, 6)).collect();
    Case { pat, flags: fl.text(), hay: String::new(), hay16: vec![], start: 0, x: json!({ "alpha": alpha, "hays": hays }) }
}

fn compare(re: &regress::Regex, plain: &regress::Regex, h: &str, s: usize, enc: Enc) -> Result<(bool, bool), String> {
    let lim = match_limit(h, s) + 4;
    let x = find_all(re, Engine::Bt, enc, h, s, lim, 400_000);
    let y = find_all(plain, Engine::Bt, enc, h, s, lim, 400_000);
    if x.is_cut() || y.is_cut() {
        return Ok((false, true));
    }
    if x != y {
        return Err(format!(
            "prefilter changes the result on \"{}\" from {} ({:?}, predicate {}): with={} without={}",
            show_str(h),
            s,
            enc,
            re.verif_start_predicate_kind(),
            x.show(),
            y.show()
        ));
    }
    Ok((matches!(&x, Out::Ms(v) if !v.is_empty()), false))
}

pub fn check_l(case: &Case, l: &mut Local, len: usize) -> Verdict {
    let fl = Fl::parse(&case.flags);
    let re = match compile(&case.pat, fl, false) {
        Ok(r) => r,
        Err(e) if is_infra_err(&e) => return Verdict::Skip("compile_infra"),
        Err(_) => return Verdict::Skip("rejected"),
    };
    let kind = re.verif_start_predicate_kind();
    let plain = re.verif_with_arbitrary_start_predicate();
    let alpha = x_alpha(case);
    let mut any = false;
    let mut cut = 0u64;
    let mut evals = 0u64;
    let mut hs = super::c03::x_hays(case);
    hs.extend(all_strings(&alpha, len));
    for h in hs {
        for s in starts_of(&h) {
            for enc in [Enc::Utf8, Enc::Ascii] {
                if enc == Enc::Ascii && !h.is_ascii() {
                    continue;
                }
                evals += 1;
                match compare(&re, &plain, &h, s, enc) {
                    Err(m) => return Verdict::Fail(m),
                    Ok((m, c)) => {
                        any |= m;
                        cut += c as u64;
                    }
                }
            }
        }
        if cut > 20 {
            break;
        }
    }
    l.add("haystack_evaluations", evals);
    l.add("cut_by_fuel", cut);
    l.class(&format!("predicate_{}", kind));
    if any {
        l.class("matched");
    }
    Verdict::Pass { nontrivial: kind != "Arbitrary" && any }
}

fn check_q(case: &Case, l: &mut Local) -> Verdict {
    check_l(case, l, 4)
}
fn check_t(case: &Case, l: &mut Local) -> Verdict {
    check_l(case, l, 5)
}
fn check_3(case: &Case, l: &mut Local) -> Verdict {
    check_l(case, l, 3)
}
fn gen_flag(src: &mut Src, _t: Tier) -> Case {
    let v = flag_programs();
    v[(src.raw() as usize).min(v.len() - 1)].clone()
}
/// the flag slice of C01 (all 16 i/m/s x legacy/u combinations), validated on all haystacks over {a, A, LF} up to length 3
fn flag_programs() -> &'static Vec<Case> {
    static S: std::sync::OnceLock<Vec<Case>> = std::sync::OnceLock::new();
    S.get_or_init(|| super::c01::flag_slice().iter().map(|c| Case { x: json!({ "alpha": [0x61, 0x41, 0x0A] }), ..c.clone() }).collect())
}
/// the themed shapes of C01's generator, validated on their own haystack and on all short haystacks over the pattern's characters
fn gen_themed(src: &mut Src, tier: Tier) -> Case {
    let c = super::c01::gen_themed(src, tier);
    let mut alpha: Vec<u32> = vec![];
    for ch in c.hay.chars().map(|c| c as u32).chain(c.pat.iter().copied().filter(|c| *c > 0x7F || (*c as u8).is_ascii_alphanumeric() || *c == 0x0A)) {
        if !alpha.contains(&ch) && alpha.len() < 3 {
            alpha.push(ch);
        }
    }
    if alpha.is_empty() {
        alpha.push(0x61);
    }
    Case { hay: String::new(), start: 0, x: json!({ "alpha": alpha, "hays": [c.hay] }), ..c }
}
pub static VTH: Variant = Variant { name: "themed", choice_len: 400, gen: gen_themed, check: check_q };
pub static VF: Variant = Variant { name: "exhaustive_flag_slice", choice_len: 1, gen: gen_flag, check: check_3 };

// ---- scanner alignment generator: long filler haystacks, planted occurrences, every alignment

fn gen_scan(src: &mut Src, _tier: Tier) -> Case {
    let fl = Fl { i: src.chance(1, 4), m: false, s: false, mode: *src.pick(&[Mode::Legacy, Mode::U, Mode::V]) };
    // needle first characters over all lead-byte classes
    let pool: &[u32] = &[0x61, 0x62, 0x7F, 0x80, 0xE9, 0x7FF, 0x800, 0x20AC, 0xFFFF, 0x10000, 0x1F600, 0x6B, 0x212A, 0x73, 0x17F];
    let nfirst = 1 + src.weighted(&[3, 3, 3, 2, 2]);
    let firsts: Vec<u32> = (0..nfirst).map(|_| *src.pick(pool)).collect();
    let tail: Vec<u32> = (0..src.below(3)).map(|_| *src.pick(&[0x61, 0x62, 0xE9])).collect();
    let node = match src.below(3) {
        0 => Node::Alt(firsts.iter().map(|c| { let mut v = vec![Node::Lit(*c)]; v.extend(tail.iter().map(|t| Node::Lit(*t))); Node::Cat(v) }).collect()),
        1 => { let mut v = vec![Node::Class { neg: false, items: firsts.iter().map(|c| ClassItem::Ch(*c)).collect() }]; v.extend(tail.iter().map(|t| Node::Lit(*t))); Node::Cat(v) }
        _ => { let mut v = vec![Node::Lit(firsts[0])]; v.extend(tail.iter().map(|t| Node::Lit(*t))); v.extend(firsts[1..].iter().map(|c| Node::Lit(*c))); Node::Cat(v) }
    };
    let pat = Printer::print(&node, fl.mode);
    // filler that cannot start a match
    let fillers: Vec<u32> = [0x78u32, 0x79, 0x20, 0x4E2D, 0xF1, 0x10FFFF, 0x7E].iter().copied().filter(|c| !firsts.contains(c)).collect();
    let flen = src.range(16, 80);
    let mut cps: Vec<u32> = (0..flen).map(|_| *src.pick(&fillers)).collect();
    let plants = src.range(0, 2);
    for _ in 0..plants {
        let at = src.below(cps.len() as u32 + 1) as usize;
        let mut occ = vec![*src.pick(&firsts)];
        occ.extend(tail.iter().copied());
        if src.chance(1, 4) { occ.truncate(1); }
        for (k, c) in occ.iter().enumerate() { cps.insert(at + k, *c); }
    }
    let hay = cps_to_string(&cps);
    let skew = src.below(8) as usize;
    Case { pat, flags: fl.text(), hay, hay16: vec![], start: 0, x: json!({"skew": skew}) }
}

fn check_scan(case: &Case, l: &mut Local) -> Verdict {
    let fl = Fl::parse(&case.flags);
    let re = match compile(&case.pat, fl, false) {
        Ok(r) => r,
        Err(e) if is_infra_err(&e) => return Verdict::Skip("compile_infra"),
        Err(_) => return Verdict::Skip("rejected"),
    };
    let kind = re.verif_start_predicate_kind();
    let plain = re.verif_with_arbitrary_start_predicate();
    // re-slice the buffer at every alignment 0..8 : prefix of ASCII junk, then slice it off
    let mut any = false;
    for skew in 0..8usize {
        let mut buf = String::with_capacity(case.hay.len() + 16);
        for _ in 0..skew { buf.push('#'); }
        buf.push_str(&case.hay);
        let h = &buf[skew..];
        for s in [0usize, h.len() / 2, h.len()] {
            let s = (s..=h.len()).find(|i| h.is_char_boundary(*i)).unwrap_or(h.len());
            match compare(&re, &plain, h, s, Enc::Utf8) {
                Err(m) => return Verdict::Fail(format!("[alignment skew {}] {}", skew, m)),
                Ok((m, _)) => any |= m,
            }
        }
    }
    l.class(&format!("predicate_{}", kind));
    if any { l.class("matched"); }
    Verdict::Pass { nontrivial: kind != "Arbitrary" && any }
}

pub static V: Variant = Variant { name: "prefilter_vs_arbitrary_L4", choice_len: 400, gen, check: check_q };
pub static VT: Variant = Variant { name: "prefilter_vs_arbitrary_L5", choice_len: 400, gen, check: check_t };
pub static VS: Variant = Variant { name: "scanner_alignment", choice_len: 300, gen: gen_scan, check: check_scan };

pub fn variants() -> Vec<&'static Variant> {
    vec![&V, &VT, &VS, &VF, &VTH]
}

fn small_programs() -> &'static Vec<Case> {
    static S: std::sync::OnceLock<Vec<Case>> = std::sync::OnceLock::new();
    S.get_or_init(|| {
        super::c01::small_slice(true)
            .iter()
            .map(|c| Case { x: json!({ "alpha": [0x61, 0x62] }), ..c.clone() })
            .collect()
    })
}

pub fn run(ctx: &Ctx) -> i32 {
    // bounded-exhaustive: every pattern of the small grammar of C01, validated on every haystack in {a,b}^<=4
    ctx.run_list(&V, small_programs());
    let fp: Vec<Case> = flag_programs().iter().enumerate().filter(|(i, _)| ctx.tier == Tier::Thorough || i % 2 == 0).map(|(_, c)| c.clone()).collect();
    ctx.run_list(&VF, &fp);
    ctx.run_variant(&VTH, ctx.scale(60_000, 1_000_000));
    match ctx.tier {
        Tier::Quick => {
            ctx.run_variant(&V, ctx.scale(24_000, 0));
            ctx.run_variant(&VS, ctx.scale(160_000, 0));
        }
        Tier::Thorough => {
            ctx.run_variant(&V, ctx.scale(0, 300_000));
            ctx.run_variant(&VT, ctx.scale(0, 40_000));
            ctx.run_variant(&VS, ctx.scale(0, 3_000_000));
        }
    }
    {
        let mut agg = ctx.agg.lock().unwrap();
        agg.programs = agg.evaluations;
    }
    ctx.finish(
        "translation_validation",
        "(bounded-exhaustive) all 141k patterns of the small grammar of C01, each validated on ALL haystacks in {a,b}^<=4 from every start; the flag slice of C01 (200k pattern/flag combinations over all 16 i,m,s x legacy/u sets; every second one in the quick tier) on ALL haystacks over {a, A, LF} up to length 3 from every start; plus generated programs whose beginnings vary (alternations of literals with shared/unshared prefixes and 1-4 byte lead bytes, optional first terms, lookarounds first, case-fold sets with different lead bytes, inverted brackets, ^ under global/scoped m); each compiled program is compared with the same program with StartPredicate::Arbitrary (hook) on EVERY haystack of length <= L over its relevant alphabet from EVERY start, UTF-8 and ASCII entry points; plus a scanner generator (16-80 char filler, planted occurrences, buffer re-sliced at all 8 alignments). Non-trivial = derived predicate is not Arbitrary and some haystack matched.",
        &["hook: Regex::verif_with_arbitrary_start_predicate clones the program with the prefilter removed", "bounded equivalence only", "predicate kind is reported, never asserted"],
    )
}
