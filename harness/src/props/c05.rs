//! C05: every search terminates with bounded backtracking state.

use super::common::*;
use crate::drv::*;
use crate::pat::*;
use crate::run::*;
use crate::src::Src;
use std::sync::OnceLock;

const QUANTS: &[(u32, Option<u32>)] = &[
    (0, Some(1)),
    (0, None),
    (1, None),
    (0, Some(0)),
    (1, Some(1)),
    (2, Some(2)),
    (1, Some(2)),
    (2, None),
    (0, Some(2)),
    (2, Some(3)),
];

fn lit(c: char) -> Node {
    Node::Lit(c as u32)
}
fn q(body: Node, min: u32, max: Option<u32>, lazy: bool) -> Node {
    Node::Quant { body: Box::new(body), min, max, lazy, braces: true }
}

fn bodies() -> Vec<Node> {
    vec![
        lit('a'),
        q(lit('a'), 0, Some(1), false),
        q(lit('a'), 0, None, false),
        Node::NonCap(Box::new(Node::Empty)),
        Node::Group { name: None, body: Box::new(Node::Alt(vec![lit('a'), Node::Empty])) },
        q(Node::Group { name: None, body: Box::new(lit('a')) }, 0, Some(1), false),
        Node::Cat(vec![Node::Group { name: None, body: Box::new(q(lit('a'), 0, Some(1), false)) }, Node::BackRef(0)]),
        Node::Look { behind: false, neg: false, body: Box::new(lit('a')) },
        Node::Look { behind: true, neg: false, body: Box::new(lit('a')) },
        Node::Wb,
        Node::Class { neg: false, items: vec![ClassItem::Ch('a' as u32), ClassItem::Ch('b' as u32)] },
        q(lit('a'), 0, Some(1), true),
        Node::Alt(vec![Node::Empty, lit('a')]),
        // lookarounds that contain loops of their own (loop bookkeeping inside vs outside the lookaround)
        Node::Cat(vec![Node::Look { behind: false, neg: false, body: Box::new(q(Node::NonCap(Box::new(Node::Cat(vec![lit('a'), lit('b')]))), 0, None, false)) }, q(lit('a'), 0, Some(1), false)]),
        Node::Cat(vec![Node::Look { behind: true, neg: false, body: Box::new(q(lit('a'), 0, None, false)) }, q(lit('a'), 0, Some(1), false)]),
        Node::Cat(vec![q(lit('a'), 0, Some(1), false), Node::Look { behind: false, neg: true, body: Box::new(q(lit('b'), 1, None, false)) }]),
        Node::Look { behind: false, neg: false, body: Box::new(q(q(lit('a'), 0, Some(1), false), 0, None, false)) },
    ]
}

/// All nestings up to `depth` quantifier levels over the base bodies.
fn nestings(depth: u32) -> Vec<Node> {
    let mut level: Vec<Node> = bodies();
    let mut all: Vec<Node> = vec![];
    for d in 0..depth {
        let mut next = vec![];
        for b in &level {
            for (min, max) in QUANTS {
                for lazy in [false, true] {
                    let body = if d > 0 && matches!(b, Node::Quant { .. }) { Node::NonCap(Box::new(b.clone())) } else { b.clone() };
                    next.push(q(body, *min, *max, lazy));
                }
            }
        }
        all.extend(next.iter().cloned());
        // wrapping choice for the next level: capture group for a third of them keeps the count manageable
        // ... and a fifth of them preceded by a lookaround that has a loop of its own (loop slots inside / after a lookaround)
        let look_loop = |k: usize| -> Node {
            match k % 3 {
                0 => Node::Look { behind: false, neg: false, body: Box::new(q(Node::NonCap(Box::new(Node::Cat(vec![lit('a'), lit('b')]))), 0, None, false)) },
                1 => Node::Look { behind: true, neg: false, body: Box::new(q(lit('a'), 0, None, false)) },
                _ => Node::Look { behind: false, neg: true, body: Box::new(q(lit('b'), 1, Some(2), true)) },
            }
        };
        level = next
            .into_iter()
            .enumerate()
            .map(|(i, n)| {
                if i % 3 == 0 {
                    Node::Group { name: None, body: Box::new(n) }
                } else if i % 5 == 1 {
                    Node::Cat(vec![look_loop(i / 5), Node::NonCap(Box::new(n))])
                } else {
                    n
                }
            })
            .collect();
    }
    all
}

fn placements(n: &Node) -> Vec<Node> {
    let mut v = vec![];
    for tail in [Some(lit('b')), Some(Node::Eol), None] {
        let fwd = match &tail {
            Some(t) => Node::Cat(vec![n.clone(), t.clone()]),
            None => n.clone(),
        };
        v.push(fwd.clone());
        if tail.is_some() {
            v.push(Node::Cat(vec![Node::Look { behind: true, neg: false, body: Box::new(fwd.clone()) }]));
            v.push(Node::Cat(vec![Node::Look { behind: false, neg: false, body: Box::new(fwd) }, lit('a')]));
        }
    }
    v
}

pub fn slice(depth: u32) -> &'static Vec<Case> {
    static D2: OnceLock<Vec<Case>> = OnceLock::new();
    static D3: OnceLock<Vec<Case>> = OnceLock::new();
    let build = move || {
        let mut out = vec![];
        let mut seen = std::collections::HashSet::new();
        for n in nestings(depth) {
            for p in placements(&n) {
                let pat = Printer::print(&p, Mode::Legacy);
                if seen.insert(pat.clone()) {
                    out.push(Case { pat, flags: String::new(), hay: String::new(), hay16: vec![], start: 0, x: serde_json::Value::Null });
                }
            }
        }
        out
    };
    if depth <= 2 {
        D2.get_or_init(build)
    } else {
        D3.get_or_init(build)
    }
}

fn gen_slice2(src: &mut Src, _t: Tier) -> Case {
    let s = slice(2);
    s[(src.raw() as usize).min(s.len() - 1)].clone()
}
fn gen_slice3(src: &mut Src, _t: Tier) -> Case {
    let s = slice(3);
    s[(src.raw() as usize).min(s.len() - 1)].clone()
}

/// Absolute step budgets for the exhaustive slices (|H| <= 4), calibrated on the repaired tree: the largest counts
/// observed are 84,430 (depth 2) and 18,930,761 (depth 3; legitimately exponential searches such as
/// /(((?:a?)+){2,}?)+b/ on "aaaa"). The budgets are >= 20x those maxima; see evidence classes max_steps_*.
pub const SLICE2_BUDGET: u64 = 5_000_000;
pub const SLICE3_BUDGET: u64 = 400_000_000;

/// steps(engine) <= REF_K * steps(reference ordered search) + slack. The largest ratio observed on the repaired tree is
/// below 25 (evidence class max_engine_steps_per_reference_step_x100); REF_K leaves more than an order of magnitude.
/// engine steps allowed per step of the reference model's ordered search; the largest ratio observed on the
/// repaired tree is 2.2 (evidence class max_engine_steps_per_reference_step_x100), so this is > 40x that
pub const REF_K: u64 = 100;

fn check_on(case: &Case, hays: &[String], l: &mut Local, budget: u64) -> Verdict {
    let fl = Fl::parse(&case.flags);
    let rf = crate::esref::compile(&case.pat, fl).ok();
    let t = tf(&case.pat);
    let mut backtracked = false;
    for no_opt in [false, true] {
        let re = match compile(&case.pat, fl, no_opt) {
            Ok(r) => r,
            Err(e) if is_infra_err(&e) => return Verdict::Fail(format!("compile: {}", e)),
            Err(_) => return Verdict::Skip("rejected"),
        };
        let insns = re.verif_insn_count() as u64;
        for h in hays {
            // the reference model's own ordered search (steps counted by esref); None = it declines or exceeds its cap
            let ref_steps: Option<u64> = rf.as_ref().and_then(|r| match r.find(h, 0, 2_000_000) {
                (crate::esref::Found::Aborted, _) => None,
                (_, n) => Some(n),
            });
            let mut steps = [0u64; 2];
            for (k, eng) in [Engine::Bt, Engine::Pike].iter().enumerate() {
                let (o, rep) = first_with(&re, *eng, Enc::Utf8, h, 0, budget);
                if let Out::Panic(p) = &o {
                    return Verdict::Fail(format!("panic: {}", p));
                }
                if rep.exhausted {
                    return Verdict::Fail(format!(
                        "{:?} ({}) on \"{}\": search did not finish within {} steps (max backtrack/state stack {}): does not terminate or blows up",
                        eng,
                        if no_opt { "no_opt" } else { "opt" },
                        show_str(h),
                        budget,
                        rep.max_stack
                    ));
                }
                steps[k] = rep.used;
                l.max(if k == 0 { "max_steps_backtrack" } else { "max_steps_pikevm" }, rep.used);
                if let Some(rs) = ref_steps {
                    l.max("max_engine_steps_per_reference_step_x100", rep.used * 100 / (rs + 1));
                    if rep.used > REF_K * rs + 64 * (h.len() as u64 + insns + 16) {
                        return Verdict::Fail(format!(
                            "{:?} ({}) on \"{}\": {} steps where the ECMAScript reference search needs {} (bound: {} x reference + slack)",
                            eng,
                            if no_opt { "no_opt" } else { "opt" },
                            show_str(h),
                            rep.used,
                            rs,
                            REF_K
                        ));
                    }
                }
                l.max("max_stack", rep.max_stack as u64);
                if rep.max_stack as u64 > 4 * rep.used + 64 {
                    return Verdict::Fail(format!("{:?} on \"{}\": backtrack store {} exceeds 4*steps ({})", eng, show_str(h), rep.max_stack, rep.used));
                }
                if rep.max_stack > 2 {
                    backtracked = true;
                }
            }
            // recorded only: the executors' step counts are not comparable as a criterion (the backtracker skips
            // start positions through its prefilter, the PikeVM advances all threads in lockstep)
            for (a, b) in [(steps[0], steps[1]), (steps[1], steps[0])] {
                l.max("max_ratio_x100", a * 100 / (b + 1));
            }
        }
    }
    Verdict::Pass { nontrivial: backtracked && t.split }
}

fn hays4() -> &'static Vec<String> {
    static HAYS: OnceLock<Vec<String>> = OnceLock::new();
    HAYS.get_or_init(|| all_strings(&[0x61, 0x62], 4))
}
fn check_slice(case: &Case, l: &mut Local) -> Verdict {
    check_on(case, hays4(), l, SLICE2_BUDGET)
}
fn check_slice3(case: &Case, l: &mut Local) -> Verdict {
    check_on(case, hays4(), l, SLICE3_BUDGET)
}

// random larger ones
fn gen_random(src: &mut Src, tier: Tier) -> Case {
    fn tweak(cfg: &mut GenCfg, _s: &mut Src) {
        cfg.quant_w = 14;
        cfg.max_depth = 5;
        cfg.props = false;
        cfg.classset = false;
    }
    let fl = Fl::gen(src);
    let alpha = vec![0x61, 0x62];
    let mut cfg = GenCfg::full(fl, alpha.clone());
    tweak(&mut cfg, src);
    let node = gen_pattern(src, &cfg);
    let pat = Printer::print(&node, fl.mode);
    let hay = if src.chance(1, 2) { witness_hay(src, &node, fl, &alpha, 3) } else { gen_hay(src, &alpha, if tier == Tier::Quick { 8 } else { 10 }) };
    let hay: String = hay.chars().take(10).collect();
    Case { pat, flags: fl.text(), hay, hay16: vec![], start: 0, x: serde_json::Value::Null }
}

fn check_random(case: &Case, l: &mut Local) -> Verdict {
    // the absolute budget is generous for |H| <= 10: exponential-but-finite searches stay far below it in practice;
    // a case that exceeds it without the ratio test firing is skipped (inconclusive), never judged.
    let fl = Fl::parse(&case.flags);
    let re = match compile(&case.pat, fl, false) {
        Ok(r) => r,
        Err(e) if is_infra_err(&e) => return Verdict::Fail(format!("compile: {}", e)),
        Err(_) => return Verdict::Skip("rejected"),
    };
    let budget = 20_000_000u64;
    let (o1, r1) = first_with(&re, Engine::Bt, Enc::Utf8, &case.hay, 0, budget);
    let (o2, r2) = first_with(&re, Engine::Pike, Enc::Utf8, &case.hay, 0, budget);
    for o in [&o1, &o2] {
        if let Out::Panic(p) = o {
            return Verdict::Fail(format!("panic: {}", p));
        }
    }
    l.max("max_steps_backtrack", r1.used);
    l.max("max_steps_pikevm", r2.used);
    let insns = re.verif_insn_count() as u64;
    let slack = 64 * (case.hay.len() as u64 + insns + 16);
    let ref_steps: Option<u64> = crate::esref::compile(&case.pat, fl).ok().and_then(|r| match r.find(&case.hay, 0, 2_000_000) {
        (crate::esref::Found::Aborted, _) => None,
        (_, n) => Some(n),
    });
    if let Some(rs) = ref_steps {
        for (r, name) in [(&r1, "backtrack"), (&r2, "pikevm")] {
            l.max("max_engine_steps_per_reference_step_x100", r.used * 100 / (rs + 1));
            if r.used > REF_K * rs + slack {
                return Verdict::Fail(format!("{} needs {}{} steps where the ECMAScript reference search needs {}", name, if r.exhausted { "more than " } else { "" }, r.used, rs));
            }
        }
    }
    // an executor that exhausts the budget where the reference search is small was reported above; where the
    // reference itself is large or declines, the case is inconclusive
    match (r1.exhausted, r2.exhausted) {
        (true, true) => return Verdict::Skip("both_executors_exceed_20M_steps"),
        (true, false) | (false, true) => return Verdict::Skip("one_executor_exceeds_20M_steps_reference_large_or_declines"),
        _ => {}
    }
    for (a, b) in [(r1.used, r2.used), (r2.used, r1.used)] {
        l.max("max_ratio_x100", a * 100 / (b + 1));
    }
    for r in [r1, r2] {
        if r.max_stack as u64 > 4 * r.used + 64 {
            return Verdict::Fail(format!("backtrack store {} exceeds 4*steps ({})", r.max_stack, r.used));
        }
    }
    let t = tf(&case.pat);
    Verdict::Pass { nontrivial: t.split && r1.max_stack > 2 }
}

pub static V2: Variant = Variant { name: "nested_quantifier_slice_depth2", choice_len: 1, gen: gen_slice2, check: check_slice };
pub static V3: Variant = Variant { name: "nested_quantifier_slice_depth3", choice_len: 1, gen: gen_slice3, check: check_slice3 };
pub static VR: Variant = Variant { name: "random_nested", choice_len: 400, gen: gen_random, check: check_random };

pub fn variants() -> Vec<&'static Variant> {
    vec![&VR, &V2, &V3]
}

pub fn run(ctx: &Ctx) -> i32 {
    crate::esref::selftest::ensure();
    match ctx.tier {
        Tier::Quick => {
            ctx.run_list(&V2, slice(2));
            ctx.run_variant(&VR, ctx.scale(200_000, 0));
        }
        Tier::Thorough => {
            ctx.run_list(&V3, slice(3));
            ctx.run_variant(&VR, ctx.scale(0, 4_000_000));
        }
    }
    ctx.agg.lock().unwrap().exhaustive = true;
    ctx.finish(
        "exploration",
        "EXHAUSTIVE slice: all nestings (depth <= 2 quick, <= 3 thorough) of 10 quantifier shapes x {greedy, lazy} over 17 bodies {a, a?, a*, a??, (?:), (a|), (|a), (a)?, (a?)\\1, (?=a), (?<=a), \\b, [ab], (?=(?:ab)*)a?, (?<=a*)a?, a?(?!b+), (?=(?:a?)*)} with tails {b, $, none}, placed forward / inside a lookbehind / inside a lookahead, on ALL haystacks in {a,b}^<=4, both executors, both pipelines; oracle: the fuel hook's deterministic step counter - every search must finish within a fixed budget (>= 20x the worst count observed on the repaired tree: 5M steps for the depth-2 slice, 400M for depth 3), the backtrack store must stay <= 4*steps, and neither executor may need more than 100x the steps of the ES reference model's own ordered search (esref counts its steps; the largest ratio observed is 2.2x) - so a hang or blow-up is caught without a clock even when both executors share it. Plus random nested-quantifier patterns with |H| <= 10 judged against the reference search (a case where the reference needs > 2M steps or declines is inconclusive). Non-trivial = pattern has a quantifier and the run pushed backtracking state.",
        &["hook: fuel counter in both executors (ticks per instruction / backtrack pop)", "the wall clock never decides; budget overruns of BOTH executors on random cases are skipped and counted", "esref (reference model) provides steps(reference ordered search)"],
    )
}
