//! C07: compilation is total: any input yields Ok or Err, never a crash or hang.

use super::common::*;
use crate::drv::*;
use crate::pat::*;
use crate::run::*;
use crate::soup::*;
use crate::src::Src;
use serde_json::json;
use std::panic::{catch_unwind, AssertUnwindSafe};

/// ticks allowed for an input of n code points: A + B * n * log2(n + 2).
/// Calibrated on the repaired tree (evidence class max_ticks_per_nlogn_x100 is ~ the observed maximum of
/// 100 * used / (n * log2(n+2) + 64)); the factor below is >= 20x that.
pub fn tick_budget(n: usize) -> u64 {
    let n = n as f64;
    (200_000.0 + 4_000.0 * n * (n + 2.0).log2()) as u64
}

pub struct CompileOutcome {
    pub ok: bool,
    pub err: Option<String>,
    pub panic: Option<String>,
    pub exhausted: bool,
    pub used: u64,
}

pub fn compile_budgeted(cps: &[u32], fl: Fl, no_opt: bool) -> CompileOutcome {
    regress::verif::set_fuel(tick_budget(cps.len()));
    let r = catch_unwind(AssertUnwindSafe(|| construct(cps, fl, no_opt).map(|_| ())));
    let rep = regress::verif::report();
    regress::verif::set_fuel(u64::MAX);
    match r {
        Ok(Ok(())) => CompileOutcome { ok: true, err: None, panic: None, exhausted: rep.exhausted, used: rep.used },
        Ok(Err(e)) => CompileOutcome { ok: false, err: Some(e.text), panic: None, exhausted: rep.exhausted, used: rep.used },
        Err(p) => CompileOutcome { ok: false, err: None, panic: Some(panic_msg(p)), exhausted: rep.exhausted, used: rep.used },
    }
}

fn judge(cps: &[u32], fl: Fl, l: &mut Local) -> Result<bool, String> {
    let mut any_ok = false;
    for no_opt in [false, true] {
        let o = compile_budgeted(cps, fl, no_opt);
        let n = cps.len() as f64;
        l.max("max_ticks_per_nlogn_x100", (o.used as f64 * 100.0 / (n * (n + 2.0).log2() + 64.0)) as u64);
        if o.exhausted {
            return Err(format!(
                "compilation ({}) did not finish within its step budget ({} ticks for {} code points): hang or super-linear blow-up",
                if no_opt { "no_opt" } else { "opt" },
                tick_budget(cps.len()),
                cps.len()
            ));
        }
        if let Some(p) = o.panic {
            return Err(format!("compilation ({}) panicked: {}", if no_opt { "no_opt" } else { "opt" }, p));
        }
        any_ok |= o.ok;
    }
    Ok(any_ok)
}

fn has_syntax(cps: &[u32]) -> bool {
    cps.iter().any(|c| matches!(char::from_u32(*c), Some('(' | '[' | '{' | '\\' | '|' | '*' | '+' | '?')))
}

fn check(case: &Case, l: &mut Local) -> Verdict {
    let fl = Fl::parse(&case.flags);
    match judge(&case.pat, fl, l) {
        Err(m) => Verdict::Fail(m),
        Ok(ok) => {
            l.class(if ok { "accepted" } else { "rejected" });
            Verdict::Pass { nontrivial: has_syntax(&case.pat) }
        }
    }
}

fn mk(pat: Vec<u32>, fl: Fl) -> Case {
    Case { pat, flags: fl.text(), hay: String::new(), hay16: vec![], start: 0, x: serde_json::Value::Null }
}

fn gen_raw(src: &mut Src, _t: Tier) -> Case {
    let n = src.range(0, 64);
    let pat = (0..n)
        .map(|_| match src.weighted(&[6, 3, 1, 1, 1]) {
            0 => *src.pick(&[0x28u32, 0x29, 0x5B, 0x5D, 0x7B, 0x7D, 0x5C, 0x7C, 0x2A, 0x2B, 0x3F, 0x5E, 0x24, 0x2E, 0x2D, 0x3C, 0x3E, 0x3A, 0x3D, 0x21, 0x2C, 0x26]),
            1 => src.below(128),
            2 => 0xD800 + src.below(0x800),
            3 => src.below(0x110000),
            _ => *src.pick(&[0x10FFFF, 0xFFFF, 0x10000, 0, 0x7F, 0x80, 0x2028, 0xFEFF, 0x200D]),
        })
        .collect();
    mk(pat, gen_flags_any(src))
}

fn gen_soup_case(src: &mut Src, t: Tier) -> Case {
    let pat = gen_soup(src, if t == Tier::Quick { 10 } else { 14 });
    mk(pat, gen_flags_any(src))
}

fn gen_mutated(src: &mut Src, t: Tier) -> Case {
    let g = gen_general(src, t, 0, 0, no_tweak);
    let mut pat = g.case.pat;
    mutate(src, &mut pat);
    // compile under a possibly different mode than it was printed for
    let fl = if src.chance(1, 2) { g.fl } else { gen_flags_any(src) };
    mk(pat, fl)
}

// ---- adversarial families (size-parametric). Run on a thread with Rust's default 2 MiB stack.

fn rep(s: &str, n: usize) -> String {
    s.repeat(n)
}

pub fn family(kind: u32, n: usize) -> (String, &'static str) {
    match kind {
        0 => (vec!["a"; n].join("|"), "alternatives"),
        1 => (format!("{}a{}", rep("(", n), rep(")", n)), "nested_groups"),
        2 => (format!("{}a{}", rep("(?:", n), rep(")", n)), "nested_noncapture"),
        3 => (rep("(a)", n), "many_groups"),
        4 => (rep("a*", n), "many_loops"),
        5 => (format!("[{}]", (0..n).map(|i| char::from_u32(0x100 + (i as u32 * 2) % 0x8000).unwrap_or('a').to_string()).collect::<String>()), "class_members"),
        6 => (rep("a", n), "long_literal"),
        7 => (format!("a{{{}}}", rep("9", n.min(40))), "huge_count"),
        8 => {
            let mut s = "a".to_string();
            for _ in 0..n.min(12) {
                s = format!("(?:{}){{5}}", s);
            }
            (s, "count_towers")
        }
        9 => ((0..n).map(|_| "(?<n>a)".to_string()).collect::<Vec<_>>().join("|"), "duplicate_names"),
        10 => (format!("{}a{}", rep("(?=", n), rep(")", n)), "nested_lookahead"),
        11 => (format!("{}a{}", rep("[", n), rep("]", n)), "nested_classes_v"),
        12 => (format!("{}a", rep("(?<=", n.min(300))) + &rep(")", n.min(300)), "nested_lookbehind"),
        13 => (rep("\\1", n) + "(a)", "many_backrefs"),
        14 => (format!("(?:{})*", vec!["a"; n].join("|")), "alternatives_in_loop"),
        15 => (rep("(a|b)*", n), "many_alt_loops"),
        16 => (rep("[a-z]", n), "many_brackets"),
        17 => (format!("\\u{{{}}}", rep("0", n) + "41"), "long_escape"),
        18 => (rep("(?i:a", n.min(250)) + &rep(")", n.min(250)), "nested_modifiers"),
        20 => {
            // towers of counted groups whose bodies hide a loop inside a lookaround
            let mut s = "(?:ab)*".to_string();
            for _ in 0..tower_depth(n) {
                s = format!("(?:(?={})c){{5}}", s);
            }
            (s, "lookaround_count_towers")
        }
        21 => {
            let mut s = "(?:ab)+".to_string();
            for _ in 0..tower_depth(n) {
                s = format!("(?:(?<!{})c|d){{4}}", s);
            }
            (s, "lookbehind_count_towers")
        }
        _ => (format!("[\\q{{{}}}]", vec!["ab"; n].join("|")), "many_strings_v"),
    }
}

const NFAM: u32 = 22;

fn tower_depth(n: usize) -> usize {
    match n {
        0..=10 => 4,
        11..=300 => 6,
        301..=5000 => 7,
        5001..=70000 => 8,
        _ => 3 + n % 7,
    }
}

fn sizes(t: Tier) -> Vec<usize> {
    match t {
        Tier::Quick => vec![10, 300, 5_000, 70_000],
        Tier::Thorough => vec![10, 100, 255, 257, 1_000, 5_000, 30_000, 66_000, 100_000, 300_000],
    }
}

fn fam_cases(t: Tier) -> Vec<Case> {
    let mut v = vec![];
    for k in 0..NFAM {
        for n in sizes(t) {
            let (p, name) = family(k, n);
            for fl in ["", "u", "v", "i"] {
                v.push(Case { pat: p.chars().map(|c| c as u32).collect(), flags: fl.to_string(), hay: String::new(), hay16: vec![], start: 0, x: json!({"family": name, "n": n}) });
            }
        }
    }
    v
}

fn gen_fam(src: &mut Src, t: Tier) -> Case {
    let v = fam_cases(t);
    v[(src.raw() as usize).min(v.len() - 1)].clone()
}

fn check_fam(case: &Case, l: &mut Local) -> Verdict {
    // run on a thread with the default 2 MiB stack: stack exhaustion there aborts the process,
    // which the supervisor attributes to this case.
    let pat = case.pat.clone();
    let fl = Fl::parse(&case.flags);
    let h = std::thread::Builder::new().stack_size(2 << 20).spawn(move || {
        let mut l2 = Local { counting: true, ..Default::default() };
        let r = judge(&pat, fl, &mut l2);
        (r, l2.classes)
    });
    match h.map(|h| h.join()) {
        Ok(Ok((r, classes))) => {
            for (k, v) in classes {
                l.max(&k, v);
            }
            match r {
                Err(m) => Verdict::Fail(m),
                Ok(ok) => {
                    l.class(if ok { "accepted" } else { "rejected" });
                    Verdict::Pass { nontrivial: true }
                }
            }
        }
        _ => Verdict::Fail("worker thread died".into()),
    }
}

// ---- every code point in every syntactic role whose handling depends on the code point (case tables, ID_Start /
// ID_Continue, identity escapes, byte-literal lowering)
const SWEEP_BLOCK: u32 = 0x400;

fn sweep_cases(t: Tier) -> Vec<Case> {
    (0..0x110000 / SWEEP_BLOCK).map(|b| Case { x: json!({"block": b, "deep": t == Tier::Thorough}), ..Default::default() }).collect()
}

fn gen_sweep(src: &mut Src, _t: Tier) -> Case {
    Case { x: json!({"block": src.below(0x110000 / SWEEP_BLOCK), "deep": true}), ..Default::default() }
}

fn check_sweep(case: &Case, l: &mut Local) -> Verdict {
    let b = case.x.get("block").and_then(|b| b.as_u64()).unwrap_or(0) as u32;
    // a replay of a shrunk failure carries the exact pattern
    if !case.pat.is_empty() {
        return check(case, l);
    }
    let thorough = case.x.get("deep").and_then(|b| b.as_bool()).unwrap_or(false);
    for c in b * SWEEP_BLOCK..(b + 1) * SWEEP_BLOCK {
        let shapes_i: Vec<Vec<u32>> = vec![vec![c], vec![0x5B, 0x5E, c, 0x5D], vec![c, c], vec![0x5B, c, 0x2D, c.saturating_add(1).min(0x10FFFF), 0x5D]];
        let shapes_n: Vec<Vec<u32>> = vec![vec![0x28, 0x3F, 0x3C, c, 0x3E, 0x2E, 0x29], vec![0x5C, c], vec![0x5B, 0x5C, c, 0x5D], vec![0x28, 0x3F, 0x3C, 0x61, c, 0x3E, 0x29, 0x5C, 0x6B, 0x3C, 0x61, c, 0x3E]];
        for (flags, shapes) in [(&["i", "iu", "iv"][..], &shapes_i), (&["", "u", "v"][..], &shapes_n)] {
            for f in flags {
                let fl = Fl::parse(f);
                for pat in shapes {
                    for no_opt in [false, true] {
                        if no_opt && !thorough {
                            continue;
                        }
                        let o = compile_budgeted(pat, fl, no_opt);
                        if o.exhausted || o.panic.is_some() {
                            return Verdict::Fail(format!(
                                "/{}/{} ({}): {}",
                                show(pat),
                                f,
                                if no_opt { "no_opt" } else { "opt" },
                                o.panic.map(|p| format!("compilation panicked: {}", p)).unwrap_or_else(|| "compilation did not finish within its step budget".into())
                            ));
                        }
                        l.class(if o.ok { "accepted" } else { "rejected" });
                    }
                }
            }
        }
    }
    Verdict::Pass { nontrivial: true }
}

pub static V_SWEEP: Variant = Variant { name: "code_point_sweep", choice_len: 1, gen: gen_sweep, check: check_sweep };
pub static V_CORE: Variant = Variant { name: "exhaustive_token_triples", choice_len: 5, gen: super::c08::gen_core, check };
pub static V_RAW: Variant = Variant { name: "raw_code_points", choice_len: 80, gen: gen_raw, check };
pub static V_SOUP: Variant = Variant { name: "token_soup", choice_len: 60, gen: gen_soup_case, check };
pub static V_MUT: Variant = Variant { name: "mutated_valid", choice_len: 400, gen: gen_mutated, check };
pub static V_FAM: Variant = Variant { name: "adversarial_families", choice_len: 1, gen: gen_fam, check: check_fam };

pub fn variants() -> Vec<&'static Variant> {
    vec![&V_RAW, &V_SOUP, &V_MUT, &V_FAM, &V_SWEEP, &V_CORE]
}

pub fn run(ctx: &Ctx) -> i32 {
    ctx.run_list(&V_FAM, &fam_cases(ctx.tier));
    ctx.run_list(&V_SWEEP, &sweep_cases(ctx.tier));
    ctx.run_list(&V_CORE, &super::c08::core_cases(ctx.tier));
    ctx.run_variant(&V_RAW, ctx.scale(300_000, 5_000_000));
    ctx.run_variant(&V_SOUP, ctx.scale(600_000, 10_000_000));
    ctx.run_variant(&V_MUT, ctx.scale(300_000, 5_000_000));
    if std::env::var("VERIF_SUMMARY_ONLY").is_err() {
        // the same inputs with debug assertions and overflow checks (arithmetic on loop / group ids, table indexes)
        ctx.run_other_build("chk(debug-assertions,overflow-checks)", "target/chk/check");
    }
    ctx.finish(
        "exploration",
        "(oo) EVERY sequence of up to 3 tokens of the 71-token core of C08 under -, u, v (800k patterns; thorough: quadruples too); (o) EVERY code point 0..=0x10FFFF (surrogates included) in every role whose handling depends on the code point: as a literal, doubled, in a negated class and as a range start under i / iu / iv; as a group name, in a \\k reference, as an identity escape and as a class escape under - / u / v; (i) arbitrary code point sequences <= 64 incl. surrogates (never above 0x10FFFF); (ii) token soup: 1-10 (14) fragments from ~230 syntax fragments (every bracket, quantifier shape, escape family, group opener, v-mode operator, property names); (iii) valid generated patterns mutated by insert/delete/duplicate/swap/replace and compiled under another mode; (iv) 20 size-parametric adversarial families (alternatives, nesting of groups/lookarounds/classes/modifiers, group/loop counts, class members, long literals, huge counts, count towers, duplicate names, string sets) at sizes up to 70k (300k thorough), compiled on a thread with the default 2 MiB stack. All flag sets, opt and no_opt. Oracle: from_unicode returns Ok or Err - no panic (catch_unwind), no process death (supervisor + case journal), within a deterministic tick budget A + B*n*log2(n+2) (hook). Non-trivial = the input contains one of ( [ { \\ | * + ? (families: always).",
        &["hook: compile-time ticks in the parser's input primitives and term loop, optimizer fixpoints and emitter loop; a loop that never touches those is only caught by the supervisor's wall-clock watchdog (reported INCONCLUSIVE, exit 2, never as a violation)", "stack exhaustion is judged on the release build with a 2 MiB thread stack"],
    )
}
