//! C03: the IR optimizer never changes what a regex matches (per-program bounded equivalence).

use super::common::*;
use crate::drv::*;
use crate::pat::*;
use crate::run::*;
use crate::src::Src;
use serde_json::json;

fn tweak(cfg: &mut GenCfg, src: &mut Src) {
    // bias toward what the passes rewrite
    cfg.quant_w = 9;
    cfg.max_count = 6;
    if src.chance(1, 2) {
        cfg.props = false;
    }
}

/// literal runs, counted loops, brackets: the shapes the optimizer passes pattern-match on
fn gen_opt_shape(src: &mut Src, cfg: &GenCfg, depth: u32) -> Node {
    match src.weighted(&[4, 3, 3, 2, 2, 2, 2, 2, 1]) {
        0 => {
            // literal run, possibly long (crosses the 16-byte chunk limit)
            let n = *src.pick(&[1u32, 2, 3, 5, 8, 15, 16, 17, 20, 33]);
            let n = if src.chance(1, 2) { n.min(4) } else { n };
            Node::Cat((0..n).map(|_| Node::Lit(gen_char(src, cfg))).collect())
        }
        1 => {
            // counted loop over a simple or complex body
            let body = if depth < 3 { gen_opt_shape(src, cfg, depth + 1) } else { Node::Lit(gen_char(src, cfg)) };
            let min = src.range(0, 6);
            let max = match src.below(3) {
                0 => Some(min),
                1 => Some(min + src.range(0, 3)),
                _ => None,
            };
            Node::Quant { body: Box::new(body), min, max, lazy: src.chance(1, 3), braces: true }
        }
        2 => {
            // single-char loop over every 1-char node kind
            let body = match src.below(7) {
                0 => Node::Lit(gen_char(src, cfg)),
                1 => Node::Dot,
                2 => Node::Class { neg: false, items: vec![] },
                3 => Node::Class { neg: true, items: vec![] },
                4 => gen_class(src, cfg),
                5 => Node::Esc(*src.pick(b"dwsDWS")),
                _ => Node::Class { neg: src.chance(1, 2), items: (0..src.range(1, 6)).map(|_| ClassItem::Ch(gen_char(src, cfg))).collect() },
            };
            let (min, max) = *src.pick(&[(0, None), (1, None), (0, Some(1)), (2, Some(4)), (0, Some(0)), (3, Some(3)), (1, Some(2))]);
            Node::Quant { body: Box::new(body), min, max, lazy: src.chance(1, 3), braces: src.chance(1, 2) }
        }
        3 => Node::Group { name: None, body: Box::new(if depth < 3 { gen_opt_shape(src, cfg, depth + 1) } else { Node::Empty }) },
        4 => {
            let n = 2 + src.below(2);
            Node::Alt((0..n).map(|_| if src.chance(1, 4) { Node::Empty } else if depth < 3 { gen_opt_shape(src, cfg, depth + 1) } else { Node::Lit(gen_char(src, cfg)) }).collect())
        }
        5 => Node::Look {
            behind: src.chance(2, 3),
            neg: src.chance(1, 3),
            body: Box::new(if depth < 3 { gen_opt_shape(src, cfg, depth + 1) } else { Node::Lit(gen_char(src, cfg)) }),
        },
        6 => {
            let n = 2 + src.below(3);
            Node::Cat((0..n).map(|_| if depth < 3 { gen_opt_shape(src, cfg, depth + 1) } else { Node::Lit(gen_char(src, cfg)) }).collect())
        }
        7 => Node::Class { neg: src.chance(1, 2), items: vec![] }, // always-fail / always-match
        _ => gen_node(src, cfg, 3),
    }
}

fn gen(src: &mut Src, _tier: Tier) -> Case {
    let fl = Fl::gen(src);
    let alpha = gen_alphabet(src);
    let mut cfg = GenCfg::full(fl, alpha);
    tweak(&mut cfg, src);
    let mut node = if src.chance(1, 3) {
        gen_pattern(src, &cfg)
    } else {
        let k = 1 + src.weighted(&[3, 3, 2]);
        Node::Cat((0..k).map(|_| gen_opt_shape(src, &cfg, 0)).collect())
    };
    let mut c = 0;
    uniquify_names(&mut node, &mut c);
    let pat = Printer::print(&node, fl.mode);
    let rel = relevant_alphabet(&pat, &cfg.alpha, 3);
    let mut alpha = rel;
    let foreign = *src.pick(&[0x7A, 0x0A, 0x20, 0xE9, 0x1F600]);
    if !alpha.contains(&foreign) && alpha.len() < 4 {
        alpha.push(foreign);
    }
    let nh = src.range(2, 5);
    let hays: Vec<String> = (0..nh).map(|_| witness_hay(src, &node, fl, &cfg.alpha, 2)).collect();
    Case { pat, flags: fl.text(), hay: String::new(), hay16: vec![], start: 0, x: json!({ "alpha": alpha, "hays": hays }) }
}

pub fn x_hays(case: &Case) -> Vec<String> {
    case.x.get("hays").and_then(|a| a.as_array()).map(|a| a.iter().filter_map(|v| v.as_str().map(|s| s.to_string())).collect()).unwrap_or_default()
}

pub fn x_alpha(case: &Case) -> Vec<u32> {
    case.x.get("alpha").and_then(|a| a.as_array()).map(|a| a.iter().filter_map(|v| v.as_u64().map(|n| n as u32)).collect()).unwrap_or_else(|| vec![0x61, 0x62])
}

pub fn check_l(case: &Case, l: &mut Local, len: usize) -> Verdict {
    let fl = Fl::parse(&case.flags);
    let a = compile(&case.pat, fl, false);
    let b = compile(&case.pat, fl, true);
    let (ra, rb) = match (a, b) {
        (Err(e), _) | (_, Err(e)) if is_infra_err(&e) && !e.starts_with("PANIC") => return Verdict::Skip("compile_infra"),
        (Ok(a), Ok(b)) => (a, b),
        (Err(_), Err(_)) => return Verdict::Skip("rejected"),
        (Ok(_), Err(e)) => return Verdict::Fail(format!("compiles with optimizer, fails without: {}", e)),
        (Err(e), Ok(_)) => return Verdict::Fail(format!("compiles without optimizer, fails with: {}", e)),
    };
    let changed = format!("{:?}", ra) != format!("{:?}", rb);
    let alpha = x_alpha(case);
    let mut any = false;
    let mut evals = 0u64;
    let mut cut = 0u64;
    let mut hs = x_hays(case);
    hs.extend(all_strings(&alpha, len));
    for h in hs {
        for s in starts_of(&h) {
            let lim = match_limit(&h, s) + 4;
            for eng in [Engine::Bt, Engine::Pike] {
                if eng == Engine::Pike && s != 0 {
                    continue;
                }
                let x = find_all(&ra, eng, Enc::Utf8, &h, s, lim, 400_000);
                let y = find_all(&rb, eng, Enc::Utf8, &h, s, lim, 400_000);
                evals += 1;
                if x.is_cut() || y.is_cut() {
                    cut += 1;
                    continue;
                }
                if x != y {
                    return Verdict::Fail(format!(
                        "opt vs no_opt differ on \"{}\" from {} ({:?}): opt={} no_opt={}",
                        show_str(&h),
                        s,
                        eng,
                        x.show(),
                        y.show()
                    ));
                }
                if let Out::Ms(v) = &x {
                    any |= !v.is_empty();
                }
            }
        }
        if cut > 20 {
            break;
        }
    }
    l.add("haystack_evaluations", evals);
    l.add("cut_by_fuel", cut);
    if changed {
        l.class("optimizer_changed_program");
    }
    if any {
        l.class("matched");
    }
    Verdict::Pass { nontrivial: changed && any }
}

fn check_q(case: &Case, l: &mut Local) -> Verdict {
    check_l(case, l, 4)
}
fn check_t(case: &Case, l: &mut Local) -> Verdict {
    check_l(case, l, 5)
}
fn check_3(case: &Case, l: &mut Local) -> Verdict {
    check_l(case, l, 3)
}
fn gen_flag(src: &mut Src, _t: Tier) -> Case {
    let v = flag_programs();
    v[(src.raw() as usize).min(v.len() - 1)].clone()
}
/// the flag slice of C01 (all 16 i/m/s x legacy/u combinations), validated on all haystacks over {a, A, LF} up to length 3
fn flag_programs() -> &'static Vec<Case> {
    static S: std::sync::OnceLock<Vec<Case>> = std::sync::OnceLock::new();
    S.get_or_init(|| super::c01::flag_slice().iter().map(|c| Case { x: json!({ "alpha": [0x61, 0x41, 0x0A] }), ..c.clone() }).collect())
}
/// the themed shapes of C01's generator, validated on their own haystack and on all short haystacks over the pattern's characters
fn gen_themed(src: &mut Src, tier: Tier) -> Case {
    let c = super::c01::gen_themed(src, tier);
    let mut alpha: Vec<u32> = vec![];
    for ch in c.hay.chars().map(|c| c as u32).chain(c.pat.iter().copied().filter(|c| *c > 0x7F || (*c as u8).is_ascii_alphanumeric() || *c == 0x0A)) {
        if !alpha.contains(&ch) && alpha.len() < 3 {
            alpha.push(ch);
        }
    }
    if alpha.is_empty() {
        alpha.push(0x61);
    }
    Case { hay: String::new(), start: 0, x: json!({ "alpha": alpha, "hays": [c.hay] }), ..c }
}
pub static VTH: Variant = Variant { name: "themed", choice_len: 400, gen: gen_themed, check: check_q };
pub static VF: Variant = Variant { name: "exhaustive_flag_slice", choice_len: 1, gen: gen_flag, check: check_3 };

pub static V: Variant = Variant { name: "opt_vs_noopt_L4", choice_len: 400, gen, check: check_q };
pub static VT: Variant = Variant { name: "opt_vs_noopt_L5", choice_len: 400, gen, check: check_t };

pub fn variants() -> Vec<&'static Variant> {
    vec![&V, &VT, &VF, &VTH]
}

fn small_programs() -> &'static Vec<Case> {
    static S: std::sync::OnceLock<Vec<Case>> = std::sync::OnceLock::new();
    S.get_or_init(|| {
        super::c01::small_slice(true)
            .iter()
            .map(|c| Case { x: json!({ "alpha": [0x61, 0x62] }), ..c.clone() })
            .collect()
    })
}

pub fn run(ctx: &Ctx) -> i32 {
    // bounded-exhaustive: every pattern of the small grammar of C01, validated on every haystack in {a,b}^<=4
    ctx.run_list(&V, small_programs());
    let fp: Vec<Case> = flag_programs().iter().enumerate().filter(|(i, _)| ctx.tier == Tier::Thorough || i % 2 == 0).map(|(_, c)| c.clone()).collect();
    ctx.run_list(&VF, &fp);
    ctx.run_variant(&VTH, ctx.scale(60_000, 1_000_000));
    match ctx.tier {
        Tier::Quick => ctx.run_variant(&V, ctx.scale(24_000, 0)),
        Tier::Thorough => {
            ctx.run_variant(&V, ctx.scale(0, 300_000));
            ctx.run_variant(&VT, ctx.scale(0, 40_000));
        }
    }
    {
        let mut agg = ctx.agg.lock().unwrap();
        agg.programs = agg.evaluations;
    }
    ctx.finish(
        "translation_validation",
        "(bounded-exhaustive) all 141k patterns of the small grammar of C01, each validated on ALL haystacks in {a,b}^<=4 from every start; the flag slice of C01 (200k pattern/flag combinations over all 16 i,m,s x legacy/u sets; every second one in the quick tier) on ALL haystacks over {a, A, LF} up to length 3 from every start; plus generated programs biased to what the passes rewrite (literal runs up to 33 chars, counted loops 0..6 on unrollable and non-unrollable bodies, single-char loops over every 1-char node kind, empty/always-failing brackets, lookbehind) ; each program is compiled with and without the optimizer and the two are compared on EVERY haystack of length <= L (4 quick, 4 and 5 thorough) over the program's relevant alphabet (<= 4 symbols) from every start offset (backtracker all starts, PikeVM start 0), plus 2-5 witness haystacks sampled from the program's own language (so that literals longer than L, counted loops and lookbehind contexts are reached). Non-trivial = the optimizer changed the program (Debug dumps differ) and some haystack matched.",
        &["bounded equivalence only: haystacks longer than L or over other characters are not examined", "fuel hook cuts runaway searches (counted)"],
    )
}
