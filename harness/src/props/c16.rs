//! C16: Match accessors are consistent; named access finds the participating group.

use crate::drv::*;
use crate::pat::*;
use crate::run::*;
use crate::src::Src;
use serde_json::json;

pub const NAMES: &[&str] = &["a", "b", "c", "x1", "_u", "$d", "π", "ä", "名", "𝒜"];

/// Generates a node in which a name may repeat only across alternatives of one disjunction.
/// `avail` = names not yet used on the current alternative path.
pub fn gen_dup(src: &mut Src, cfg: &GenCfg, avail: &mut Vec<&'static str>, depth: u32) -> Node {
    let deep = depth >= 4;
    match src.weighted(&[4, if deep { 0 } else { 5 }, if deep { 0 } else { 4 }, 4, 3, if deep { 0 } else { 2 }, if deep { 0 } else { 2 }, 1]) {
        // leaves: mostly literals; sometimes a never-matching class (dead branches next to groups), a dot, an empty
        0 => match src.weighted(&[8, 1, 1, 1]) {
            0 => Node::Lit(gen_char(src, cfg)),
            1 => Node::Class { neg: false, items: vec![] },
            2 => Node::Dot,
            _ => Node::Empty,
        },
        1 => {
            // alternation: every arm starts from the same availability
            let n = 2 + src.below(3);
            let base = avail.clone();
            let mut used_any: Vec<&'static str> = vec![];
            let arms = (0..n)
                .map(|_| {
                    let mut a = base.clone();
                    let node = gen_dup(src, cfg, &mut a, depth + 1);
                    for nm in &base {
                        if !a.contains(nm) && !used_any.contains(nm) {
                            used_any.push(nm);
                        }
                    }
                    node
                })
                .collect();
            avail.retain(|n| !used_any.contains(n));
            Node::Alt(arms)
        }
        2 => {
            let n = 2 + src.below(3);
            Node::Cat((0..n).map(|_| gen_dup(src, cfg, avail, depth + 1)).collect())
        }
        3 => {
            // named group
            if avail.is_empty() {
                return Node::Group { name: None, body: Box::new(gen_dup(src, cfg, avail, depth + 1)) };
            }
            let k = src.below(avail.len() as u32) as usize;
            let nm = avail.remove(k);
            Node::Group { name: Some(nm.to_string()), body: Box::new(gen_dup(src, cfg, avail, depth + 1)) }
        }
        4 => Node::Group { name: None, body: Box::new(gen_dup(src, cfg, avail, depth + 1)) },
        5 => {
            let body = gen_dup(src, cfg, avail, depth + 1);
            let (min, max) = *src.pick(&[(0, Some(1)), (0, None), (1, None), (0, Some(2)), (2, Some(3))]);
            Node::Quant { body: Box::new(body), min, max, lazy: src.chance(1, 3), braces: false }
        }
        6 => Node::Look { behind: src.chance(1, 2), neg: src.chance(1, 3), body: Box::new(gen_dup(src, cfg, avail, depth + 1)) },
        _ => {
            if src.chance(1, 2) {
                Node::NamedRef(src.below(4))
            } else {
                Node::BackRef(src.below(6))
            }
        }
    }
}

fn names_in_order(n: &Node, out: &mut Vec<String>) {
    match n {
        Node::Group { name, body } => {
            out.push(name.clone().unwrap_or_default());
            names_in_order(body, out);
        }
        Node::NonCap(b) | Node::Mods { body: b, .. } | Node::Look { body: b, .. } | Node::Quant { body: b, .. } => names_in_order(b, out),
        Node::Cat(v) | Node::Alt(v) => v.iter().for_each(|x| names_in_order(x, out)),
        _ => {}
    }
}

fn gen(src: &mut Src, tier: Tier) -> Case {
    let fl = Fl::gen(src);
    let alpha: Vec<u32> = src.pick(&[&[0x61u32, 0x62][..], &[0x61, 0x62, 0x63][..], &[0x61, 0xE9, 0x1F600][..]]).to_vec();
    let mut cfg = GenCfg::full(fl, alpha.clone());
    cfg.named = false;
    let mut avail: Vec<&'static str> = NAMES[..(2 + src.below(NAMES.len() as u32 - 1)) as usize].to_vec();
    let node = if src.chance(1, 5) {
        let mut n = gen_pattern(src, &GenCfg { named: true, ..cfg.clone() });
        let mut c = 0;
        uniquify_names(&mut n, &mut c);
        n
    } else {
        let k = 1 + src.below(3);
        Node::Cat((0..k).map(|_| gen_dup(src, &cfg, &mut avail, 0)).collect())
    };
    // anchored patterns take the executors' start-anchored paths
    let node = if src.chance(1, 5) { Node::Cat(vec![Node::Bol, node]) } else { node };
    let escape_names = src.chance(1, 6);
    let pat = Printer::print_opts(&node, fl.mode, escape_names);
    let mut names = vec![];
    names_in_order(&node, &mut names);
    let hay = gen_hay(src, &alpha, if tier == Tier::Quick { 8 } else { 12 });
    Case { pat, flags: fl.text(), hay, hay16: vec![], start: 0, x: json!({ "names": names }) }
}

fn rng(r: Option<regress::Range>) -> Cap {
    r.map(|r| (r.start, r.end))
}

pub fn check(case: &Case, l: &mut Local) -> Verdict {
    let fl = Fl::parse(&case.flags);
    let names: Vec<String> = case
        .x
        .get("names")
        .and_then(|a| a.as_array())
        .map(|a| a.iter().map(|v| v.as_str().unwrap_or("").to_string()).collect())
        .unwrap_or_default();
    let re = match compile(&case.pat, fl, false) {
        Ok(r) => r,
        Err(e) if is_infra_err(&e) => return Verdict::Skip("compile_infra"),
        Err(e) => return Verdict::Fail(format!("valid pattern (names unique per alternative) rejected: {}", e)),
    };
    let h = case.hay.as_str();
    // every producer of Match values: the default executor and the PikeVM, UTF-8 and (on ASCII text) ASCII entry
    // points, the iterator and the single-match forms, the optimizing and the non-optimizing pipeline
    use regress::backends as rbe;
    let re_noopt = compile(&case.pat, fl, true).ok();
    let mut ms: Vec<regress::Match> = vec![];
    let mut producer: Vec<&str> = vec![];
    let mut per_source: Vec<(&str, Vec<(usize, usize)>)> = vec![];
    let lim = h.len() + 2;
    for src_id in 0..8 {
        if src_id >= 4 && src_id < 7 && !h.is_ascii() {
            continue;
        }
        regress::verif::set_fuel(DEFAULT_FUEL);
        let (name, v): (&str, Vec<regress::Match>) = match src_id {
            0 => ("find_iter", re.find_iter(h).take(lim).collect()),
            1 => ("find_from(0)", re.find_from(h, 0).take(lim).collect()),
            2 => ("pikevm", rbe::find::<rbe::PikeVMExecutor>(&re, h, 0).take(lim).collect()),
            3 => ("find", re.find(h).into_iter().collect()),
            4 => ("find_iter_ascii", re.find_iter_ascii(h).take(lim).collect()),
            5 => ("pikevm_ascii", rbe::find_ascii::<rbe::PikeVMExecutor>(&re, h, 0).take(lim).collect()),
            6 => ("find_ascii", re.find_ascii(h).into_iter().collect()),
            _ => match &re_noopt {
                Some(r) => ("no_opt.find_iter", r.find_iter(h).take(lim).collect()),
                None => continue,
            },
        };
        let cut = regress::verif::report().exhausted;
        regress::verif::set_fuel(u64::MAX);
        if cut {
            return Verdict::Skip("cut_by_fuel");
        }
        per_source.push((name, v.iter().map(|m| (m.start(), m.end())).collect()));
        producer.extend(std::iter::repeat(name).take(v.len()));
        ms.extend(v);
    }
    let _ = per_source;
    let n = names.len();
    let mut nontrivial = false;
    // distinct names in source order
    let mut distinct: Vec<&String> = vec![];
    for nm in &names {
        if !nm.is_empty() && !distinct.contains(&nm) {
            distinct.push(nm);
        }
    }
    for (mi, m) in ms.iter().enumerate() {
        let verdict = check_match(m, h, n, &names, &distinct, l, &mut nontrivial);
        if let Verdict::Fail(msg) = verdict {
            return Verdict::Fail(format!("[Match from {}] {}", producer.get(mi).copied().unwrap_or("?"), msg));
        }
    }
    if !ms.is_empty() {
        l.class("matched");
    }
    return Verdict::Pass { nontrivial };
}

#[allow(clippy::too_many_arguments)]
fn check_match(m: &regress::Match, h: &str, n: usize, names: &[String], distinct: &[&String], l: &mut Local, nontrivial_out: &mut bool) -> Verdict {
    let mut nontrivial = false;
    {
        if m.captures.len() != n {
            return Verdict::Fail(format!("captures.len() = {} but the pattern has {} capturing groups", m.captures.len(), n));
        }
        if rng(m.group(0)) != Some((m.range.start, m.range.end)) || m.start() != m.range.start || m.end() != m.range.end || m.range() != m.range {
            return Verdict::Fail("group(0)/start()/end()/range() disagree with range".into());
        }
        if h.is_char_boundary(m.range.start) && h.is_char_boundary(m.range.end) && m.range.end <= h.len() && m.as_str(h) != &h[m.range.start..m.range.end] {
            return Verdict::Fail("as_str(text) is not the text of the match range".into());
        }
        for i in 1..=n {
            if rng(m.group(i)) != rng(m.captures[i - 1].clone()) {
                return Verdict::Fail(format!("group({}) != captures[{}]", i, i - 1));
            }
        }
        for i in [n + 1, n + 2, n + 100, usize::MAX] {
            if m.group(i).is_some() {
                return Verdict::Fail(format!("group({}) is Some but there are only {} groups", i, n));
            }
        }
        // groups()
        let g = m.groups();
        if g.size_hint() != (n + 1, Some(n + 1)) || g.len() != n + 1 {
            return Verdict::Fail(format!("groups().size_hint() = {:?}, expected exactly {}", g.size_hint(), n + 1));
        }
        let gs: Vec<Cap> = m.groups().map(rng).collect();
        let want: Vec<Cap> = (0..=n).map(|i| rng(m.group(i))).collect();
        if gs != want {
            return Verdict::Fail(format!("groups() yields {:?}, group(0..=n) yields {:?}", gs, want));
        }
        let mut it = m.groups();
        for k in 0..=n {
            let sh = it.size_hint();
            if sh != (n + 1 - k, Some(n + 1 - k)) {
                return Verdict::Fail(format!("groups().size_hint() after {} items = {:?}", k, sh));
            }
            it.next();
        }
        if it.next().is_some() || it.next().is_some() {
            return Verdict::Fail("groups() not fused".into());
        }
        // captures lie within the haystack
        for c in m.captures.iter().flatten() {
            if !(c.start <= c.end && c.end <= h.len() && h.is_char_boundary(c.start) && h.is_char_boundary(c.end)) {
                return Verdict::Fail(format!("capture {:?} not a valid range of the haystack", c));
            }
        }
        // named_groups(): each distinct name once, in source order, with the participating group's range
        let ng: Vec<(String, Cap)> = m.named_groups().map(|(k, v)| (k.to_string(), rng(v))).collect();
        let mut expect: Vec<(String, Cap)> = vec![];
        let mut unset = false;
        for nm in distinct {
            let parts: Vec<Cap> = names.iter().enumerate().filter(|(_, x)| x == nm).map(|(i, _)| rng(m.captures[i].clone())).filter(|c| c.is_some()).collect();
            if parts.len() > 1 {
                return Verdict::Fail(format!("two groups named {} participate in one match: {:?}", nm, parts));
            }
            let v = parts.first().cloned().flatten();
            if v.is_none() {
                unset = true;
            }
            expect.push(((*nm).clone(), v));
        }
        if ng != expect {
            return Verdict::Fail(format!("named_groups() = {:?}, expected {:?}", ng, expect));
        }
        for (nm, v) in &expect {
            let got = rng(m.named_group(nm));
            if got != *v {
                return Verdict::Fail(format!("named_group({:?}) = {:?} but named_groups()/participating group = {:?}", nm, got, v));
            }
        }
        for bad in ["", "zz", "A", " a", "a "] {
            if !distinct.iter().any(|d| d.as_str() == bad) && m.named_group(bad).is_some() {
                return Verdict::Fail(format!("named_group({:?}) is Some for an unknown name", bad));
            }
        }
        if !distinct.is_empty() && (unset || m.captures.iter().any(|c| c.is_none())) {
            nontrivial = true;
        }
        if distinct.len() < names.iter().filter(|s| !s.is_empty()).count() {
            l.class("match_with_duplicate_names");
        }
    }
    *nontrivial_out |= nontrivial;
    Verdict::Pass { nontrivial }
}

pub static V: Variant = Variant { name: "accessors", choice_len: 300, gen, check };

pub fn variants() -> Vec<&'static Variant> {
    vec![&V]
}

pub fn run(ctx: &Ctx) -> i32 {
    ctx.run_variant(&V, ctx.scale(500_000, 8_000_000));
    ctx.finish(
        "exploration",
        "generated patterns with 0-8 groups mixing unnamed, named (ASCII, non-ASCII, astral, \\u-escaped spellings) and names duplicated across alternatives at several nesting levels, inside loops and lookarounds, a fifth of them start-anchored; for every Match produced by ANY producer (find_iter, find_from, find, the PikeVM executor, the ASCII entry points of both executors on ASCII text, and the no_opt pipeline): captures.len() = number of capturing groups of the generator's AST (left-paren order), group/groups/size_hint identities, named_groups() = each distinct name once in source order with the participating group's range, named_group(name) = the same value, unknown/empty names -> None. Non-trivial = at least one named group and at least one non-participating group in a match.",
        &["group count / name order come from the generator's AST (the pattern is valid by construction), not from regress", "fuel hook"],
    )
}
