//! C15: observable results do not depend on build features. The same generated case is sent to six runner processes
//! (/verif/cfgrun built against regress with: default | index-positions | prohibit-unsafe | both | utf16 | alloc-only)
//! over a line protocol; their canonical outputs must be byte-identical to the default runner's.

use super::common::*;
use crate::drv::*;
use crate::pat::*;
use crate::run::*;
use crate::soup::*;
use crate::src::Src;
use serde_json::json;
use std::cell::RefCell;
use std::io::{BufRead, BufReader, Write};
use std::process::{Child, ChildStdin, ChildStdout, Command, Stdio};

pub const CONFIGS: [&str; 6] = ["default", "index", "safe", "both", "utf16", "alloc"];

struct Runner {
    child: Child,
    stdin: ChildStdin,
    stdout: BufReader<ChildStdout>,
}

fn spawn(cfg: &str) -> Option<Runner> {
    let exe = format!("{}/cfgrun/target-{}/release/cfgrun", verif_dir(), cfg);
    let mut child = Command::new(&exe).stdin(Stdio::piped()).stdout(Stdio::piped()).stderr(Stdio::null()).spawn().ok()?;
    let stdin = child.stdin.take()?;
    let stdout = BufReader::new(child.stdout.take()?);
    Some(Runner { child, stdin, stdout })
}

thread_local! {
    static RUNNERS: RefCell<Vec<Option<Runner>>> = const { RefCell::new(Vec::new()) };
}

/// Ask runner `i` for the result of one case line. None = the runner died (it is respawned for the next case).
fn ask(i: usize, line: &str) -> Option<String> {
    RUNNERS.with(|r| {
        let mut r = r.borrow_mut();
        if r.is_empty() {
            for c in CONFIGS {
                r.push(spawn(c));
            }
        }
        if r[i].is_none() {
            r[i] = spawn(CONFIGS[i]);
        }
        let runner = r[i].as_mut()?;
        let ok = writeln!(runner.stdin, "{}", line).is_ok() && runner.stdin.flush().is_ok();
        let mut out = String::new();
        let n = if ok { runner.stdout.read_line(&mut out).unwrap_or(0) } else { 0 };
        if n == 0 {
            let _ = runner.child.kill();
            let _ = runner.child.wait();
            r[i] = None;
            return None;
        }
        let line_out = out.trim_end().to_string();
        if line_out == "TIMEOUT" {
            let _ = runner.child.wait();
            r[i] = None;
        }
        Some(line_out)
    })
}

fn gen(src: &mut Src, tier: Tier) -> Case {
    // union of the generators that reach the cfg!() branches: icase (legacy upper-casing table lookup, unicode folding),
    // bracket prefilters on longer unaligned haystacks (align_to path), backreferences (subrange_eq), named groups (HashMap/hashbrown)
    let mut c = match src.below(6) {
        5 => super::c01::gen_themed(src, tier),
        0 => {
            let pat = gen_soup(src, 8);
            let fl = gen_flags_any(src);
            let alpha = gen_alphabet(src);
            let hay = gen_hay(src, &alpha, 10);
            Case { pat, flags: fl.text(), hay, hay16: vec![], start: 0, x: serde_json::Value::Null }
        }
        1 => {
            fn tweak(cfg: &mut GenCfg, _s: &mut Src) {
                cfg.alpha = vec![0x73, 0x53, 0x17F, 0x6B, 0x4B, 0x212A, 0xDF, 0x1E9E, 0x3C3, 0x3C2, 0x3A3];
            }
            let mut g = gen_general(src, tier, 10, 14, tweak);
            if !g.case.flags.contains('i') {
                g.case.flags.push('i');
            }
            g.case
        }
        2 => {
            // long haystacks for the chunked bitmap scan
            let mut g = gen_general(src, tier, 10, 14, no_tweak);
            let filler: String = (0..src.range(9, 40)).map(|_| *src.pick(&['x', 'y', ' ', 'é', 'q'])).collect();
            g.case.hay = format!("{}{}{}", filler, g.case.hay, if src.chance(1, 2) { filler.clone() } else { String::new() });
            g.case.start = 0;
            g.case
        }
        _ => gen_general(src, tier, 10, 14, no_tweak).case,
    };
    if c.start < c.hay.len() && !c.hay.is_char_boundary(c.start) {
        c.start = 0;
    }
    let t = *src.pick(&["[$0]", "$1-$2", "${n1}", "$$", "<$01>", ""]);
    c.x = json!({ "template": t });
    c
}

pub fn check(case: &Case, l: &mut Local) -> Verdict {
    let fl = Fl::parse(&case.flags);
    // pre-screen with the fuel hook in this (default-feature) process: runaway cases are not sent to the runners
    // (everything the runners do: both pipelines, both executors, the ASCII entry point, and a scan from 0 for replace_all)
    for no_opt in [false, true] {
        match compile(&case.pat, fl, no_opt) {
            Ok(re) => {
                for start in [case.start, 0] {
                    let lim = match_limit(&case.hay, start) + 4;
                    for eng in [Engine::Bt, Engine::Pike] {
                        for enc in [Enc::Utf8, Enc::Ascii] {
                            if enc == Enc::Ascii && !case.hay.is_ascii() {
                                continue;
                            }
                            if find_all(&re, eng, enc, &case.hay, start, lim, 200_000).is_cut() {
                                return Verdict::Skip("cut_by_fuel");
                            }
                        }
                    }
                }
            }
            Err(e) if is_infra_err(&e) => return Verdict::Skip("compile_infra"),
            Err(_) => {}
        }
    }
    let line = json!({"p": case.pat, "f": case.flags, "h": case.hay, "s": case.start, "t": case.x["template"].as_str().unwrap_or("")}).to_string();
    let base = match ask(0, &line) {
        Some(b) => b,
        None => return Verdict::Fail("the default-feature runner died on this case".into()),
    };
    if base == "TIMEOUT" {
        return Verdict::Skip("runner_wall_clock_timeout(inconclusive)");
    }
    if base.starts_with("PANIC") {
        return Verdict::Fail(format!("default configuration panicked: {}", base));
    }
    for i in 1..CONFIGS.len() {
        match ask(i, &line) {
            None => return Verdict::Fail(format!("runner built with '{}' died on a case the default build handles", CONFIGS[i])),
            Some(r) if r == "TIMEOUT" => return Verdict::Skip("runner_wall_clock_timeout(inconclusive)"),
            Some(r) if r != base => {
                return Verdict::Fail(format!("configuration '{}' differs from default: {} <<>> {}", CONFIGS[i], r.chars().take(300).collect::<String>(), base.chars().take(300).collect::<String>()));
            }
            _ => {}
        }
    }
    let t = tf(&case.pat);
    if fl.i {
        l.class("icase");
    }
    if t.backref {
        l.class("backref");
    }
    if t.named {
        l.class("named_group");
    }
    if case.hay.len() >= 9 {
        l.class("long_haystack");
    }
    let matched = base.contains("M:") && !base.contains("M:P:");
    Verdict::Pass { nontrivial: matched && (fl.i || t.backref || t.named || (t.class && case.hay.len() >= 8)) }
}

fn gen_small(src: &mut Src, _t: Tier) -> Case {
    let v = super::c01::small_slice(true);
    v[(src.raw() as usize).min(v.len() - 1)].clone()
}

/// a sample of the small-pattern grammar of C01 (b spelled as e-acute) on eight haystacks over {a, e-acute}
fn check_small(case: &Case, l: &mut Local) -> Verdict {
    let pat = respell_b(&case.pat, 0xE9);
    let mut nontrivial = false;
    for (k, h) in ["", "a", "é", "aé", "éa", "aaé", "éaé", "aéaa"].iter().enumerate() {
        let c = Case { pat: pat.clone(), hay: h.to_string(), start: 0, flags: if k % 2 == 0 { String::new() } else { "u".into() }, x: json!({ "template": "[$0|$1]" }), ..case.clone() };
        match check(&c, l) {
            Verdict::Fail(m) => return Verdict::Fail(format!("/{}/ on \"{}\": {}", show(&pat), h, m)),
            Verdict::Pass { nontrivial: n } => nontrivial |= n,
            _ => {}
        }
    }
    Verdict::Pass { nontrivial }
}

pub static VX: Variant = Variant { name: "small_pattern_sample", choice_len: 1, gen: gen_small, check: check_small };
pub static V: Variant = Variant { name: "six_configurations", choice_len: 400, gen, check };

pub fn variants() -> Vec<&'static Variant> {
    vec![&V, &VX]
}

pub fn run(ctx: &Ctx) -> i32 {
    for c in CONFIGS {
        let exe = format!("{}/cfgrun/target-{}/release/cfgrun", ctx.verif_dir, c);
        if !std::path::Path::new(&exe).exists() {
            println!("runner for configuration '{}' is missing ({}): machinery unusable", c, exe);
            return 2;
        }
    }
    let slice = super::c01::small_slice(true);
    let step = if ctx.tier == Tier::Thorough { 2 } else { 24 };
    let part: Vec<Case> = slice.iter().enumerate().filter(|(i, _)| i % step == 0).map(|(_, c)| c.clone()).collect();
    ctx.run_list(&VX, &part);
    ctx.run_variant(&V, ctx.scale(150_000, 2_500_000));
    ctx.finish(
        "exploration",
        "every 24th (thorough: every 2nd) pattern of the small-pattern grammar of C01, b spelled as e-acute, on eight haystacks over {a, e-acute}; one generated case (pattern as code points incl. uncompilable token soup, flags, haystack, start, replacement template) is answered by six runner processes built from the current tree with regress features: default | index-positions | prohibit-unsafe | index-positions+prohibit-unsafe | utf16 | --no-default-features alloc,backend-pikevm. Each prints a canonical line (compile verdict with and without the optimizer, find_from and PikeVM and find_from_ascii match sequences with captures, replace_all output, named groups); all must be byte-identical to the default runner's, and a runner that dies or panics where the default does not is a violation (it means the default build was in UB there). Generators are biased to the cfg!() branches: legacy and unicode case-insensitivity, bracket prefilters on haystacks >= 9 bytes (align_to path), backreferences, named groups. Non-trivial = a match and (i flag, or backreference, or named group, or bracket with a long haystack).",
        &["runners use only the public API (no hooks); cases are pre-screened with the fuel hook in the harness process", "the policy question whether prohibit-unsafe really compiles out all unsafe code is unobservable by results and out of scope"],
    )
}
