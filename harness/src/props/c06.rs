//! C06: matching is memory-safe and panic-free; reported ranges are valid.
//! The same case stream is executed by three builds of this harness: release (unchecked, the shipped code; a crash is
//! caught by the supervisor), `chk` (debug assertions + overflow checks: the code's own invariants become oracles)
//! and `safe` (regress features prohibit-unsafe + index-positions, debug assertions: every access is checked).

use super::common::*;
use crate::drv::*;
use crate::pat::*;
use crate::run::*;
use crate::soup::*;
use crate::src::Src;
use serde_json::json;

fn multibyte_ends(src: &mut Src, h: &mut String) {
    const MB: &[char] = &['é', 'ß', '€', '中', '😀', '𐐀', '\u{7FF}', '\u{800}', '\u{FFFF}', '\u{10000}', '\u{10FFFF}', '\u{80}'];
    if src.chance(1, 2) {
        h.insert(0, *src.pick(MB));
    }
    if src.chance(1, 2) {
        h.push(*src.pick(MB));
    }
}

fn gen(src: &mut Src, tier: Tier) -> Case {
    fn tweak(cfg: &mut GenCfg, src: &mut Src) {
        if src.chance(1, 2) {
            // multi-byte alphabet
            cfg.alpha = vec![0xE9, 0x20AC, 0x1F600, 0x61, 0x10400, 0x10428, 0x7FF, 0x800];
        }
        cfg.quant_w = 9;
    }
    let mut g = gen_general(src, tier, 10, 14, tweak);
    if src.chance(1, 3) {
        // backward-moving constructs around greedy single-char loops
        let a = *src.pick(&g.alpha);
        let body = Node::Cat(vec![
            Node::Quant { body: Box::new(if src.chance(1, 2) { Node::Dot } else { Node::Class { neg: true, items: vec![ClassItem::Ch(a)] } }), min: src.below(2), max: None, lazy: src.chance(1, 3), braces: false },
            g.node.clone(),
        ]);
        let node = if src.chance(1, 2) { Node::Look { behind: true, neg: src.chance(1, 4), body: Box::new(body) } } else { Node::Cat(vec![Node::Group { name: None, body: Box::new(body) }, Node::Class { neg: true, items: vec![ClassItem::Ch(0x78)] }]) };
        g.case.pat = Printer::print(&node, g.fl.mode);
    }
    multibyte_ends(src, &mut g.case.hay);
    let st = starts_of(&g.case.hay);
    g.case.start = match src.below(8) {
        0 => usize::MAX,
        1 => g.case.hay.len() + 1 + src.below(9) as usize,
        2 => g.case.hay.len(),
        _ => *src.pick(&st),
    };
    g.case.x = json!({"ascii_api": src.chance(1, 4)});
    g.case
}

fn gen_soup_match(src: &mut Src, tier: Tier) -> Case {
    let pat = gen_soup(src, 8);
    let fl = gen_flags_any(src);
    let alpha = gen_alphabet(src);
    let mut hay = gen_hay(src, &alpha, if tier == Tier::Quick { 8 } else { 12 });
    multibyte_ends(src, &mut hay);
    let st = starts_of(&hay);
    let start = *src.pick(&st);
    Case { pat, flags: fl.text(), hay, hay16: vec![], start, x: json!({"ascii_api": src.chance(1, 5)}) }
}

fn valid_ranges(h: &str, ms: &[M], strict_boundaries: bool) -> Result<(), String> {
    for m in ms {
        let mut all = vec![(m.s, m.e)];
        all.extend(m.caps.iter().flatten().copied());
        for (a, b) in all {
            if !(a <= b && b <= h.len()) {
                return Err(format!("range {}..{} is not within 0..={}", a, b, h.len()));
            }
            if strict_boundaries && !(h.is_char_boundary(a) && h.is_char_boundary(b)) {
                return Err(format!("range {}..{} is not on character boundaries of \"{}\"", a, b, show_str(h)));
            }
        }
    }
    Ok(())
}

pub fn check(case: &Case, l: &mut Local) -> Verdict {
    let fl = Fl::parse(&case.flags);
    let h = case.hay.as_str();
    let start = case.start;
    if start < h.len() && !h.is_char_boundary(start) {
        return Verdict::Skip("start_not_on_boundary(documented panic)");
    }
    let ascii_api = case.x.get("ascii_api").and_then(|b| b.as_bool()).unwrap_or(false);
    let t = tf(&case.pat);
    let mut matched = false;
    let mut compiled = 0;
    for no_opt in [false, true] {
        let re = match compile(&case.pat, fl, no_opt) {
            Ok(r) => r,
            Err(e) if e.starts_with("PANIC") => return Verdict::Fail(format!("compile panicked: {}", e)),
            Err(e) if is_infra_err(&e) => return Verdict::Skip("compile_fuel"),
            Err(_) => continue,
        };
        compiled += 1;
        let lim = if start > h.len() { 2 } else { h.len() - start + 3 };
        for eng in [Engine::Bt, Engine::Pike] {
            let mut encs = vec![Enc::Utf8];
            if h.is_ascii() || ascii_api {
                encs.push(Enc::Ascii);
            }
            for enc in encs {
                let o = find_all(&re, eng, enc, h, start, lim, DEFAULT_FUEL);
                match &o {
                    Out::Cut => {
                        l.class("cut_by_fuel");
                    }
                    Out::Panic(p) => return Verdict::Fail(format!("{:?}/{:?} ({}): panic: {}", eng, enc, if no_opt { "no_opt" } else { "opt" }, p)),
                    Out::Overrun(v) => {
                        if enc == Enc::Utf8 || h.is_ascii() {
                            return Verdict::Fail(format!("{:?}/{:?}: iterator yields more matches than positions: {}", eng, enc, show_ms(&v[..v.len().min(5)])));
                        }
                    }
                    Out::Ms(v) => {
                        let strict = enc == Enc::Utf8 || h.is_ascii();
                        if let Err(m) = valid_ranges(h, v, strict) {
                            return Verdict::Fail(format!("{:?}/{:?} ({}): {}; matches: {}", eng, enc, if no_opt { "no_opt" } else { "opt" }, m, show_ms(&v[..v.len().min(5)])));
                        }
                        if strict {
                            for m in v {
                                // slicing with every reported range must not fail
                                let _ = &h[m.s..m.e];
                                for (a, b) in m.caps.iter().flatten() {
                                    let _ = &h[*a..*b];
                                }
                            }
                        }
                        matched |= !v.is_empty();
                    }
                }
            }
        }
    }
    if compiled == 0 {
        return Verdict::Skip("rejected");
    }
    let multibyte = h.chars().any(|c| c.len_utf8() >= 2);
    if multibyte {
        l.class("multibyte_haystack");
    }
    if t.lookbehind {
        l.class("lookbehind");
    }
    if start > h.len() {
        l.class("start_beyond_end");
    }
    if matched {
        l.class("matched");
    }
    Verdict::Pass { nontrivial: multibyte && (t.lookbehind || t.split) }
}

fn gen_small(src: &mut Src, _t: Tier) -> Case {
    let v = super::c01::small_slice(true);
    v[(src.raw() as usize).min(v.len() - 1)].clone()
}

/// bounded-exhaustive: the small-pattern grammar of C01 with the literal b replaced by e-acute, flags - and u,
/// all haystacks over {a, e-acute, U+1F600} up to length 3, starts 0 / second boundary / len+1
fn check_small(case: &Case, l: &mut Local) -> Verdict {
    static HAYS: std::sync::OnceLock<Vec<String>> = std::sync::OnceLock::new();
    let hays = HAYS.get_or_init(|| all_strings(&[0x61, 0xE9, 0x1F600], 3));
    let mut pat: Vec<u32> = vec![];
    let mut prev = 0x20;
    for &c in case.pat.iter() {
        pat.push(if c == 0x62 && prev != 0x5C { 0xE9 } else { c });
        prev = c;
    }
    let mut nontrivial = false;
    for fl in ["", "u"] {
        for h in hays {
            let second = h.chars().next().map(|c| c.len_utf8()).unwrap_or(0);
            for s in [0usize, second, h.len() + 1] {
                let c = Case { pat: pat.clone(), hay: h.clone(), start: s, flags: fl.to_string(), ..case.clone() };
                match check(&c, l) {
                    Verdict::Fail(m) => return Verdict::Fail(format!("/{}/{} on \"{}\" from {}: {}", crate::pat::show(&pat), fl, h, s, m)),
                    Verdict::Pass { nontrivial: n } => nontrivial |= n,
                    _ => {}
                }
            }
        }
    }
    Verdict::Pass { nontrivial }
}

pub static VX: Variant = Variant { name: "exhaustive_small_patterns", choice_len: 1, gen: gen_small, check: check_small };
pub static V: Variant = Variant { name: "safety_general", choice_len: 400, gen, check };
pub static VS: Variant = Variant { name: "safety_soup", choice_len: 120, gen: gen_soup_match, check };

pub fn variants() -> Vec<&'static Variant> {
    vec![&V, &VS, &VX]
}

pub fn run(ctx: &Ctx) -> i32 {
    ctx.run_variant(&V, ctx.scale(400_000, 6_000_000));
    ctx.run_variant(&VS, ctx.scale(300_000, 4_000_000));
    let slice = super::c01::small_slice(true);
    let part: Vec<Case> = slice.iter().enumerate().filter(|(i, _)| ctx.tier == Tier::Thorough || i % 16 == 0).map(|(_, c)| c.clone()).collect();
    ctx.run_list(&VX, &part);
    if std::env::var("VERIF_SUMMARY_ONLY").is_err() {
        ctx.run_other_build("chk(debug-assertions,overflow-checks)", "target/chk/check");
        ctx.run_other_build("safe(prohibit-unsafe,index-positions,debug-assertions)", "target-safe/chk/check");
    }
    ctx.finish(
        "exploration",
        "(bounded-exhaustive) the small-pattern grammar of C01 with b spelled as e-acute (a sixteenth of it in the quick tier), flags - and u, x all haystacks over {a, e-acute, U+1F600} up to length 3 x starts 0, second boundary, len+1; plus random ES patterns (general generator biased to lookbehind and greedy single-char loops that must give back, plus compilable token soup) x haystacks built from every UTF-8 sequence length with multi-byte characters at both ends (also empty / one char) x starts over every boundary, len, len+1.., usize::MAX; UTF-8 entry points everywhere, ASCII entry points on ASCII haystacks (and, for panic-freedom only, on non-ASCII ones); both executors, both pipelines. Oracle: no panic, no process death (supervisor + journal), every match and capture range satisfies 0 <= start <= end <= len on char boundaries and slices the haystack. The identical case stream (same seed) is executed by three builds: release, chk (debug assertions make the code's own boundary/index invariants fail loudly) and safe (prohibit-unsafe + index-positions: out-of-bounds becomes a panic). Non-trivial = multi-byte haystack and a backward-moving or looping construct.",
        &["a non-boundary start below len is documented to panic and is not generated", "ASCII entry points on non-ASCII text: only panic freedom and 0<=start<=end<=len are asserted (documented precondition)", "silent out-of-bounds reads that neither crash the release build nor trip an assertion in the checked builds are not visible here (ASan/Miri tier)"],
    )
}
