//! C09: match iteration follows lastIndex semantics and always progresses.

use super::common::*;
use crate::drv::*;
use crate::pat::*;
use crate::run::*;
use crate::src::Src;
use regress::backends as rbe;

fn tweak(cfg: &mut GenCfg, src: &mut Src) {
    // patterns that match empty / at multi-byte chars / at the end
    cfg.quant_w = 9;
    if src.chance(1, 2) {
        cfg.max_depth = 3;
    }
}

fn gen(src: &mut Src, tier: Tier) -> Case {
    let mut g = gen_general(src, tier, 12, 14, tweak);
    if src.chance(1, 4) {
        // themed: context-sensitive first term, start > 0
        let first = match src.below(5) {
            0 => Node::Bol,
            1 => Node::Wb,
            2 => Node::Look { behind: true, neg: false, body: Box::new(Node::Lit(*src.pick(&g.alpha))) },
            3 => Node::Look { behind: true, neg: true, body: Box::new(Node::Lit(*src.pick(&g.alpha))) },
            _ => Node::NotWb,
        };
        let node = Node::Cat(vec![first, g.node.clone()]);
        g.case.pat = Printer::print(&node, g.fl.mode);
        let st = starts_of(&g.case.hay);
        g.case.start = *src.pick(&st);
    }
    g.case
}

/// Drive an iterator to exhaustion (bounded), then poll it ten more times.
fn poll_after_end<I: Iterator<Item = regress::Match>>(mut it: I, limit: usize) -> Result<usize, String> {
    let mut n = 0;
    while it.next().is_some() {
        n += 1;
        if n > limit {
            return Err("iterator does not terminate within chars+2 items".into());
        }
    }
    for k in 0..10 {
        if it.next().is_some() {
            return Err(format!("iterator yielded Some on call {} after returning None", k + 1));
        }
    }
    Ok(n)
}

pub fn check(case: &Case, l: &mut Local) -> Verdict {
    let fl = Fl::parse(&case.flags);
    let h = case.hay.as_str();
    let start = case.start;
    if start < h.len() && !h.is_char_boundary(start) {
        return Verdict::Skip("bad_start");
    }
    let re = match compile(&case.pat, fl, false) {
        Ok(r) => r,
        Err(e) if is_infra_err(&e) => return Verdict::Skip("compile_infra"),
        Err(_) => return Verdict::Skip("rejected"),
    };
    let lim = match_limit(h, start);
    let mut nontrivial = false;
    for eng in [Engine::Bt, Engine::Pike] {
        for enc in [Enc::Utf8, Enc::Ascii] {
            if enc == Enc::Ascii && !h.is_ascii() {
                continue;
            }
            let seq = match find_all(&re, eng, enc, h, start, lim + 2, DEFAULT_FUEL) {
                Out::Ms(v) => v,
                Out::Cut => return Verdict::Skip("cut_by_fuel"),
                Out::Overrun(v) => {
                    return Verdict::Fail(format!("{:?}/{:?}: more than chars+1 matches: {}", eng, enc, show_ms(&v[..v.len().min(6)])))
                }
                Out::Panic(p) => return Verdict::Fail(format!("{:?}/{:?}: panic: {}", eng, enc, p)),
            };
            if start > h.len() && !seq.is_empty() {
                return Verdict::Fail(format!("start beyond the end yields matches: {}", show_ms(&seq)));
            }
            if seq.len() > lim.saturating_sub(1).max(if start > h.len() { 0 } else { 1 }) && seq.len() > h[start.min(h.len())..].chars().count() + 1 {
                return Verdict::Fail(format!("more than one match per position + 1: {}", show_ms(&seq)));
            }
            // history invariants
            for w in seq.windows(2) {
                let (a, b) = (&w[0], &w[1]);
                if !(b.s > a.s) || b.s < a.e || (a.e == a.s && b.s <= a.e) {
                    return Verdict::Fail(format!("{:?}/{:?}: matches not strictly increasing / overlapping: {}", eng, enc, show_ms(&seq)));
                }
            }
            for m in &seq {
                if m.s < start || m.e < m.s || m.e > h.len() {
                    return Verdict::Fail(format!("{:?}/{:?}: match out of range: {}", eng, enc, show_ms(&seq)));
                }
            }
            // unfold of first-match
            let mut cur = start;
            let mut unf: Vec<M> = vec![];
            loop {
                if unf.len() > lim + 2 {
                    break;
                }
                let (o, _) = first_with(&re, eng, enc, h, cur, DEFAULT_FUEL);
                let m = match o {
                    Out::Ms(v) => match v.into_iter().next() {
                        Some(m) => m,
                        None => break,
                    },
                    Out::Cut => return Verdict::Skip("cut_by_fuel"),
                    other => return Verdict::Fail(format!("first match from {}: {}", cur, other.show())),
                };
                let (ms, me) = (m.s, m.e);
                unf.push(m);
                if me > ms {
                    cur = me;
                } else {
                    if me >= h.len() {
                        break;
                    }
                    if !h.is_char_boundary(me) {
                        return Verdict::Fail(format!("empty match inside a character at {}", me));
                    }
                    cur = me + h[me..].chars().next().map(|c| c.len_utf8()).unwrap_or(1);
                }
            }
            if unf != seq {
                return Verdict::Fail(format!(
                    "{:?}/{:?}: iteration differs from the lastIndex unfold: iter=[{}] unfold=[{}]",
                    eng,
                    enc,
                    show_ms(&seq),
                    show_ms(&unf)
                ));
            }
            // None is sticky
            regress::verif::set_fuel(DEFAULT_FUEL * 2);
            let polled = std::panic::catch_unwind(std::panic::AssertUnwindSafe(|| match (eng, enc) {
                (Engine::Bt, Enc::Utf8) => poll_after_end(re.find_from(h, start), lim + 2),
                (Engine::Bt, Enc::Ascii) => poll_after_end(re.find_from_ascii(h, start), lim + 2),
                (Engine::Pike, Enc::Utf8) => poll_after_end(rbe::find::<rbe::PikeVMExecutor>(&re, h, start), lim + 2),
                (Engine::Pike, Enc::Ascii) => poll_after_end(rbe::find_ascii::<rbe::PikeVMExecutor>(&re, h, start), lim + 2),
            }));
            let exhausted = regress::verif::report().exhausted;
            regress::verif::set_fuel(u64::MAX);
            if !exhausted {
                match polled {
                    Err(p) => return Verdict::Fail(format!("panic while polling: {}", panic_msg(p))),
                    Ok(Err(m)) => return Verdict::Fail(format!("{:?}/{:?}: {}", eng, enc, m)),
                    Ok(Ok(n)) if n != seq.len() => return Verdict::Fail(format!("second iteration yields {} matches, first {}", n, seq.len())),
                    _ => {}
                }
            }
            if seq.len() >= 2 {
                let has_empty = seq.iter().any(|m| m.s == m.e);
                let adjacent = seq.windows(2).any(|w| w[1].s == w[0].e);
                if has_empty {
                    l.class("has_empty_match");
                }
                if adjacent {
                    l.class("adjacent_matches");
                }
                if has_empty || adjacent {
                    nontrivial = true;
                }
            }
            if seq.iter().any(|m| m.s == m.e && m.e < h.len() && h[m.e..].chars().next().map(|c| c.len_utf8() > 1).unwrap_or(false)) {
                l.class("empty_match_before_multibyte");
            }
        }
    }
    if start > 0 {
        l.class("start_gt_0");
    }
    if start > h.len() {
        l.class("start_beyond_end");
    }
    Verdict::Pass { nontrivial }
}

fn gen_small(src: &mut Src, _t: Tier) -> Case {
    let v = super::c01::small_slice(true);
    v[(src.raw() as usize).min(v.len() - 1)].clone()
}

/// bounded-exhaustive: the small-pattern grammar of C01 x all haystacks over {a, é} up to length 3 x every start
fn check_small(case: &Case, l: &mut Local) -> Verdict {
    static HAYS: std::sync::OnceLock<Vec<String>> = std::sync::OnceLock::new();
    let hays = HAYS.get_or_init(|| all_strings(&[0x61, 0xE9], 3));
    let mut nontrivial = false;
    for h in hays {
        for s in starts_of(h) {
            let c = Case { hay: h.clone(), start: s, ..case.clone() };
            match check(&c, l) {
                Verdict::Fail(m) => return Verdict::Fail(format!("on \"{}\" from {}: {}", h, s, m)),
                Verdict::Pass { nontrivial: n } => nontrivial |= n,
                _ => {}
            }
        }
    }
    Verdict::Pass { nontrivial }
}

fn gen_flag(src: &mut Src, _t: Tier) -> Case {
    let v = super::c01::flag_slice();
    v[(src.raw() as usize).min(v.len() - 1)].clone()
}

/// the flag slice of C01 (i, m, s x legacy/u) x all haystacks over {a, CR, LF} up to length 3 x every start
fn check_flag(case: &Case, l: &mut Local) -> Verdict {
    static HAYS: std::sync::OnceLock<Vec<String>> = std::sync::OnceLock::new();
    let hays = HAYS.get_or_init(|| all_strings(&[0x61, 0x0D, 0x0A], 3));
    let mut nontrivial = false;
    for h in hays {
        for s in starts_of(h) {
            let c = Case { hay: h.clone(), start: s, ..case.clone() };
            match check(&c, l) {
                Verdict::Fail(m) => return Verdict::Fail(format!("on \"{}\" from {}: {}", show_str(h), s, m)),
                Verdict::Pass { nontrivial: n } => nontrivial |= n,
                _ => {}
            }
        }
    }
    Verdict::Pass { nontrivial }
}

pub static VF: Variant = Variant { name: "exhaustive_flag_slice", choice_len: 1, gen: gen_flag, check: check_flag };
pub static VX: Variant = Variant { name: "exhaustive_small_patterns", choice_len: 1, gen: gen_small, check: check_small };
pub static V: Variant = Variant { name: "iteration_unfold", choice_len: 400, gen, check };

pub fn variants() -> Vec<&'static Variant> {
    vec![&V, &VX, &VF]
}

pub fn run(ctx: &Ctx) -> i32 {
    // every 4th pattern of the slice in the quick tier (each is iterated from every start of 15 haystacks, two executors)
    let slice = super::c01::small_slice(true);
    let part: Vec<Case> = slice.iter().enumerate().filter(|(i, _)| ctx.tier == Tier::Thorough || i % 4 == 0).map(|(_, c)| c.clone()).collect();
    ctx.run_list(&VX, &part);
    let fpart: Vec<Case> = super::c01::flag_slice().iter().enumerate().filter(|(i, _)| ctx.tier == Tier::Thorough || i % 4 == 0).map(|(_, c)| c.clone()).collect();
    ctx.run_list(&VF, &fpart);
    ctx.run_variant(&V, ctx.scale(500_000, 8_000_000));
    ctx.finish(
        "exploration",
        "(bounded-exhaustive) the small-pattern grammar of C01 (a quarter of it in the quick tier) x all haystacks over {a, e-acute} up to length 3 x every start incl. len and len+1; the flag slice of C01 (all i, m, s x legacy/u sets; a quarter of it in the quick tier) x all haystacks over {a, CR, LF} up to length 3 x every start; plus random patterns biased to empty / adjacent / multi-byte matches x haystacks (<=12/14 chars) x every start (incl. len and len+1); both executors, UTF-8 and ASCII iterators. Oracle = unfold of the library's own first-match from a cursor (end of a non-empty match, one character past an empty one) plus history invariants after every next(): strictly increasing, non-overlapping, <= chars+1 items, None sticky for 10 further calls, nothing from start > len. Non-trivial = >= 2 matches with an empty match or two adjacent matches.",
        &["first-match correctness itself (incl. visibility of text before start) is C01's oracle, not this one", "fuel hook cuts runaway searches (counted)"],
    )
}
