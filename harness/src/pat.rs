//! Pattern AST, mode-aware printer (valid by construction) and generators.

use crate::src::Src;

#[derive(Clone, Copy, PartialEq, Eq, Debug, Hash)]
pub enum Mode {
    Legacy,
    U,
    V,
}

#[derive(Clone, Copy, Debug, PartialEq, Eq, Hash)]
pub struct Fl {
    pub i: bool,
    pub m: bool,
    pub s: bool,
    pub mode: Mode,
}

impl Fl {
    pub const fn new(i: bool, m: bool, s: bool, mode: Mode) -> Fl {
        Fl { i, m, s, mode }
    }
    pub fn parse(s: &str) -> Fl {
        let mut f = Fl { i: false, m: false, s: false, mode: Mode::Legacy };
        for c in s.chars() {
            match c {
                'i' => f.i = true,
                'm' => f.m = true,
                's' => f.s = true,
                'u' => f.mode = Mode::U,
                'v' => f.mode = Mode::V,
                _ => {}
            }
        }
        f
    }
    pub fn text(&self) -> String {
        let mut s = String::new();
        if self.i {
            s.push('i')
        }
        if self.m {
            s.push('m')
        }
        if self.s {
            s.push('s')
        }
        match self.mode {
            Mode::Legacy => {}
            Mode::U => s.push('u'),
            Mode::V => s.push('v'),
        }
        s
    }
    pub fn unicode(&self) -> bool {
        self.mode != Mode::Legacy
    }
    /// Flags as a user builds them, by every public route (chosen deterministically by `salt`): from the JavaScript
    /// flag string (`Flags::from(&str)`), from a code point iterator (`Flags::new`), or by filling the struct
    /// (for v: with and without also setting `unicode`). Letters regress documents as ignored (g, y, d) are mixed
    /// into the string forms, since "other flags are not implemented and are ignored" is documented behaviour.
    pub fn regress_salted(&self, no_opt: bool, salt: usize) -> regress::Flags {
        let t = self.text();
        let with_d = || {
            let mut chars: Vec<char> = t.chars().collect();
            chars.insert(chars.len() / 2, 'd');
            chars.into_iter().collect::<String>()
        };
        let mut f = match salt % 8 {
            0 => regress::Flags::from(t.as_str()),
            1 => regress::Flags::from(format!("g{}", t).as_str()),
            2 => regress::Flags::from(format!("{}y", t).as_str()),
            3 => regress::Flags::from(with_d().as_str()),
            4 => regress::Flags::new(t.chars().map(u32::from)),
            5 => regress::Flags::new(with_d().chars().rev().map(u32::from)),
            6 => regress::Flags { icase: self.i, multiline: self.m, dot_all: self.s, unicode: self.mode == Mode::U, unicode_sets: self.mode == Mode::V, ..Default::default() },
            _ => regress::Flags { icase: self.i, multiline: self.m, dot_all: self.s, unicode: self.mode != Mode::Legacy, unicode_sets: self.mode == Mode::V, ..Default::default() },
        };
        f.no_opt = no_opt;
        f
    }

    pub fn regress(&self, no_opt: bool) -> regress::Flags {
        self.regress_salted(no_opt, 0)
    }
    /// All 24 flag sets.
    pub fn all() -> Vec<Fl> {
        let mut v = vec![];
        for mode in [Mode::Legacy, Mode::U, Mode::V] {
            for bits in 0..8 {
                v.push(Fl { i: bits & 1 != 0, m: bits & 2 != 0, s: bits & 4 != 0, mode });
            }
        }
        v
    }
    pub fn gen(src: &mut Src) -> Fl {
        let mode = *src.pick(&[Mode::Legacy, Mode::U, Mode::V]);
        Fl { i: src.chance(2, 5), m: src.chance(1, 4), s: src.chance(1, 4), mode }
    }
}

#[derive(Clone, Debug, PartialEq)]
pub enum ClassItem {
    Ch(u32),
    Range(u32, u32),
    Esc(u8),
    Prop { neg: bool, name: &'static str },
}

#[derive(Clone, Debug, PartialEq)]
pub enum CsOp {
    Ch(u32),
    Range(u32, u32),
    Esc(u8),
    Prop { neg: bool, name: &'static str },
    Q(Vec<Vec<u32>>),
    Nested(Box<Cs>),
}

#[derive(Clone, Debug, PartialEq)]
pub enum CsKind {
    Union,
    Inter,
    Sub,
}

#[derive(Clone, Debug, PartialEq)]
pub struct Cs {
    pub neg: bool,
    pub kind: CsKind,
    pub ops: Vec<CsOp>,
}

#[derive(Clone, Debug, PartialEq)]
pub enum Node {
    Empty,
    Lit(u32),
    Raw(Vec<u32>),
    Dot,
    Esc(u8),
    Prop { neg: bool, name: &'static str },
    Class { neg: bool, items: Vec<ClassItem> },
    ClassSet(Cs),
    Cat(Vec<Node>),
    Alt(Vec<Node>),
    Group { name: Option<String>, body: Box<Node> },
    NonCap(Box<Node>),
    Mods { on: u8, off: u8, body: Box<Node> },
    Look { behind: bool, neg: bool, body: Box<Node> },
    Quant { body: Box<Node>, min: u32, max: Option<u32>, lazy: bool, braces: bool },
    BackRef(u32),
    NamedRef(u32),
    Bol,
    Eol,
    Wb,
    NotWb,
}

pub fn is_syntax_char(c: u32) -> bool {
    matches!(
        char::from_u32(c),
        Some('^' | '$' | '\\' | '.' | '*' | '+' | '?' | '(' | ')' | '[' | ']' | '{' | '}' | '|')
    )
}

fn push_str(out: &mut Vec<u32>, s: &str) {
    out.extend(s.chars().map(|c| c as u32));
}

pub struct Printer {
    pub mode: Mode,
    pub out: Vec<u32>,
    names: Vec<String>,
    ngroups: u32,
    last_decimal: bool,
    escape_names: bool,
}

impl Printer {
    pub fn print(n: &Node, mode: Mode) -> Vec<u32> {
        Self::print_opts(n, mode, false)
    }

    /// `escape_names`: spell the first character of every group name as \uXXXX / \u{...}.
    pub fn print_opts(n: &Node, mode: Mode, escape_names: bool) -> Vec<u32> {
        let mut names = vec![];
        let mut ng = 0;
        collect(n, &mut names, &mut ng);
        let mut p = Printer { mode, out: vec![], names, ngroups: ng, last_decimal: false, escape_names };
        p.node(n, Ctx::Top);
        p.out
    }

    fn name(&mut self, nm: &str) {
        let mut it = nm.chars();
        if self.escape_names {
            if let Some(c) = it.next() {
                let c = c as u32;
                if c <= 0xFFFF {
                    push_str(&mut self.out, &format!("\\u{:04X}", c));
                } else {
                    push_str(&mut self.out, &format!("\\u{{{:X}}}", c));
                }
            }
        }
        for c in it {
            self.out.push(c as u32);
        }
    }

    fn lit(&mut self, c: u32) {
        if self.last_decimal && (0x30..=0x39).contains(&c) {
            push_str(&mut self.out, &format!("\\x{:02X}", c));
        } else if is_syntax_char(c) || c == '/' as u32 {
            self.out.push('\\' as u32);
            self.out.push(c);
        } else {
            self.out.push(c);
        }
        self.last_decimal = false;
    }

    fn class_lit(&mut self, c: u32) {
        let ch = char::from_u32(c);
        let esc = match self.mode {
            Mode::V => matches!(
                ch,
                Some(
                    '(' | ')' | '[' | ']' | '{' | '}' | '/' | '-' | '\\' | '|' | '&' | '!' | '#' | '%' | ',' | ':'
                        | ';' | '<' | '=' | '>' | '@' | '`' | '~' | '^' | '$' | '*' | '+' | '.' | '?'
                )
            ),
            _ => matches!(ch, Some('\\' | ']' | '[' | '^' | '-')),
        };
        if esc {
            self.out.push('\\' as u32);
        }
        self.out.push(c);
    }

    fn esc(&mut self, e: u8) {
        self.out.push('\\' as u32);
        self.out.push(e as u32);
    }

    fn prop(&mut self, neg: bool, name: &str) {
        push_str(&mut self.out, if neg { "\\P{" } else { "\\p{" });
        push_str(&mut self.out, name);
        self.out.push('}' as u32);
    }

    fn class_items(&mut self, items: &[ClassItem]) {
        for it in items {
            match it {
                ClassItem::Ch(c) => self.class_lit(*c),
                ClassItem::Range(a, b) => {
                    self.class_lit(*a);
                    self.out.push('-' as u32);
                    self.class_lit(*b);
                }
                ClassItem::Esc(e) => self.esc(*e),
                ClassItem::Prop { neg, name } => {
                    if self.mode == Mode::Legacy {
                        // \p is an identity escape in legacy mode; print a plain letter instead
                        self.class_lit('p' as u32);
                    } else {
                        self.prop(*neg, name)
                    }
                }
            }
        }
    }

    pub fn cs(&mut self, cs: &Cs) {
        self.out.push('[' as u32);
        if cs.neg {
            self.out.push('^' as u32);
        }
        let sep = match cs.kind {
            CsKind::Union => "",
            CsKind::Inter => "&&",
            CsKind::Sub => "--",
        };
        for (i, op) in cs.ops.iter().enumerate() {
            if i > 0 {
                push_str(&mut self.out, sep);
            }
            match op {
                CsOp::Ch(c) => self.class_lit(*c),
                CsOp::Range(a, b) => {
                    self.class_lit(*a);
                    self.out.push('-' as u32);
                    self.class_lit(*b);
                }
                CsOp::Esc(e) => self.esc(*e),
                CsOp::Prop { neg, name } => self.prop(*neg, name),
                CsOp::Q(strs) => {
                    push_str(&mut self.out, "\\q{");
                    for (j, s) in strs.iter().enumerate() {
                        if j > 0 {
                            self.out.push('|' as u32);
                        }
                        for c in s {
                            self.class_lit(*c);
                        }
                    }
                    self.out.push('}' as u32);
                }
                CsOp::Nested(inner) => self.cs(inner),
            }
        }
        self.out.push(']' as u32);
    }

    fn is_atom(&self, n: &Node) -> bool {
        match n {
            Node::Lit(_)
            | Node::Raw(_)
            | Node::Dot
            | Node::Esc(_)
            | Node::Prop { .. }
            | Node::Class { .. }
            | Node::ClassSet(_)
            | Node::Group { .. }
            | Node::NonCap(_)
            | Node::Mods { .. } => true,
            Node::BackRef(_) => self.ngroups > 0,
            Node::NamedRef(_) => !self.names.is_empty(),
            Node::Look { behind, .. } => self.mode == Mode::Legacy && !*behind,
            _ => false,
        }
    }

    fn wrapped(&mut self, n: &Node) {
        push_str(&mut self.out, "(?:");
        self.last_decimal = false;
        self.node(n, Ctx::Top);
        self.out.push(')' as u32);
        self.last_decimal = false;
    }

    fn node(&mut self, n: &Node, ctx: Ctx) {
        match n {
            Node::Empty => {}
            Node::Lit(c) => self.lit(*c),
            Node::Raw(v) => {
                self.out.extend_from_slice(v);
                // conservatively treat any raw escape as possibly ending in a decimal/hex run
                self.last_decimal = true;
            }
            Node::Dot => {
                self.out.push('.' as u32);
                self.last_decimal = false
            }
            Node::Esc(e) => {
                self.esc(*e);
                self.last_decimal = false
            }
            Node::Prop { neg, name } => {
                if self.mode == Mode::Legacy {
                    self.lit('p' as u32)
                } else {
                    self.prop(*neg, name)
                }
                self.last_decimal = false;
            }
            Node::Class { neg, items } => {
                self.out.push('[' as u32);
                if *neg {
                    self.out.push('^' as u32);
                }
                self.class_items(items);
                self.out.push(']' as u32);
                self.last_decimal = false;
            }
            Node::ClassSet(cs) => {
                self.cs(cs);
                self.last_decimal = false;
            }
            Node::Cat(v) => {
                if ctx == Ctx::Quant {
                    return self.wrapped(n);
                }
                for x in v {
                    if matches!(x, Node::Alt(_)) {
                        self.wrapped(x)
                    } else {
                        self.node(x, Ctx::Cat)
                    }
                }
            }
            Node::Alt(v) => {
                if ctx != Ctx::Top {
                    return self.wrapped(n);
                }
                for (i, x) in v.iter().enumerate() {
                    if i > 0 {
                        self.out.push('|' as u32);
                        self.last_decimal = false;
                    }
                    if matches!(x, Node::Alt(_)) {
                        self.wrapped(x)
                    } else {
                        self.node(x, Ctx::Cat)
                    }
                }
            }
            Node::Group { name, body } => {
                self.out.push('(' as u32);
                if let Some(nm) = name {
                    push_str(&mut self.out, "?<");
                    self.name(nm);
                    self.out.push('>' as u32);
                }
                self.last_decimal = false;
                self.node(body, Ctx::Top);
                self.out.push(')' as u32);
                self.last_decimal = false;
            }
            Node::NonCap(body) => self.wrapped(body),
            Node::Mods { on, off, body } => {
                push_str(&mut self.out, "(?");
                let fl = |m: u8| -> String {
                    let mut s = String::new();
                    if m & 1 != 0 {
                        s.push('i')
                    }
                    if m & 2 != 0 {
                        s.push('m')
                    }
                    if m & 4 != 0 {
                        s.push('s')
                    }
                    s
                };
                push_str(&mut self.out, &fl(*on));
                if *off != 0 {
                    self.out.push('-' as u32);
                    push_str(&mut self.out, &fl(*off));
                }
                self.out.push(':' as u32);
                self.last_decimal = false;
                self.node(body, Ctx::Top);
                self.out.push(')' as u32);
                self.last_decimal = false;
            }
            Node::Look { behind, neg, body } => {
                push_str(
                    &mut self.out,
                    match (*behind, *neg) {
                        (false, false) => "(?=",
                        (false, true) => "(?!",
                        (true, false) => "(?<=",
                        (true, true) => "(?<!",
                    },
                );
                self.last_decimal = false;
                self.node(body, Ctx::Top);
                self.out.push(')' as u32);
                self.last_decimal = false;
            }
            Node::Quant { body, min, max, lazy, braces } => {
                if self.is_atom(body) {
                    self.node(body, Ctx::Quant)
                } else {
                    self.wrapped(body)
                }
                let sym = match (*min, *max) {
                    (0, None) => Some('*'),
                    (1, None) => Some('+'),
                    (0, Some(1)) => Some('?'),
                    _ => None,
                };
                match (sym, *braces) {
                    (Some(c), false) => self.out.push(c as u32),
                    _ => {
                        let s = match max {
                            None => format!("{{{},}}", min),
                            Some(m) if *m == *min => format!("{{{}}}", min),
                            Some(m) => format!("{{{},{}}}", min, m),
                        };
                        push_str(&mut self.out, &s);
                    }
                }
                if *lazy {
                    self.out.push('?' as u32);
                }
                self.last_decimal = false;
            }
            Node::BackRef(k) => {
                if self.ngroups == 0 {
                    push_str(&mut self.out, "(?:)");
                    self.last_decimal = false;
                } else {
                    push_str(&mut self.out, &format!("\\{}", 1 + k % self.ngroups));
                    self.last_decimal = true;
                }
            }
            Node::NamedRef(k) => {
                if self.names.is_empty() {
                    push_str(&mut self.out, "(?:)");
                } else {
                    let nm = self.names[*k as usize % self.names.len()].clone();
                    push_str(&mut self.out, "\\k<");
                    self.name(&nm);
                    self.out.push('>' as u32);
                }
                self.last_decimal = false;
            }
            Node::Bol => {
                self.out.push('^' as u32);
                self.last_decimal = false
            }
            Node::Eol => {
                self.out.push('$' as u32);
                self.last_decimal = false
            }
            Node::Wb => {
                push_str(&mut self.out, "\\b");
                self.last_decimal = false
            }
            Node::NotWb => {
                push_str(&mut self.out, "\\B");
                self.last_decimal = false
            }
        }
    }
}

#[derive(Clone, Copy, PartialEq, Eq)]
enum Ctx {
    Top,
    Cat,
    Quant,
}

fn collect(n: &Node, names: &mut Vec<String>, ng: &mut u32) {
    match n {
        Node::Group { name, body } => {
            *ng += 1;
            if let Some(nm) = name {
                if !names.contains(nm) {
                    names.push(nm.clone());
                }
            }
            collect(body, names, ng);
        }
        Node::NonCap(b) | Node::Mods { body: b, .. } | Node::Look { body: b, .. } | Node::Quant { body: b, .. } => {
            collect(b, names, ng)
        }
        Node::Cat(v) | Node::Alt(v) => {
            for x in v {
                collect(x, names, ng)
            }
        }
        _ => {}
    }
}

pub fn count_groups(n: &Node) -> u32 {
    let mut names = vec![];
    let mut ng = 0;
    collect(n, &mut names, &mut ng);
    ng
}

/// Structural features of a generated pattern (for case classification).
#[derive(Default, Clone, Debug)]
pub struct Feat {
    pub groups: u32,
    pub named: u32,
    pub backref: u32,
    pub look: u32,
    pub lookbehind: u32,
    pub quant: u32,
    pub lazy: u32,
    pub alt: u32,
    pub class: u32,
    pub classset: u32,
    pub strings: u32,
    pub mods: u32,
    pub anchors: u32,
    pub nested_quant: u32,
    pub prop: u32,
}

impl Feat {
    pub fn of(n: &Node) -> Feat {
        let mut f = Feat::default();
        f.walk(n, false);
        f
    }
    /// Number of distinct construct kinds beyond literals.
    pub fn kinds(&self) -> u32 {
        [
            self.groups, self.backref, self.look, self.quant, self.alt, self.class + self.classset, self.mods,
            self.anchors, self.prop,
        ]
        .iter()
        .filter(|x| **x > 0)
        .count() as u32
    }
    fn walk(&mut self, n: &Node, in_quant: bool) {
        match n {
            Node::Group { name, body } => {
                self.groups += 1;
                if name.is_some() {
                    self.named += 1
                }
                self.walk(body, in_quant)
            }
            Node::NonCap(b) => self.walk(b, in_quant),
            Node::Mods { body, .. } => {
                self.mods += 1;
                self.walk(body, in_quant)
            }
            Node::Look { behind, body, .. } => {
                self.look += 1;
                if *behind {
                    self.lookbehind += 1
                }
                self.walk(body, in_quant)
            }
            Node::Quant { body, lazy, .. } => {
                self.quant += 1;
                if *lazy {
                    self.lazy += 1
                }
                if in_quant {
                    self.nested_quant += 1
                }
                self.walk(body, true)
            }
            Node::Cat(v) => v.iter().for_each(|x| self.walk(x, in_quant)),
            Node::Alt(v) => {
                self.alt += 1;
                v.iter().for_each(|x| self.walk(x, in_quant))
            }
            Node::BackRef(_) | Node::NamedRef(_) => self.backref += 1,
            Node::Class { items, .. } => {
                self.class += 1;
                if items.iter().any(|i| matches!(i, ClassItem::Prop { .. })) {
                    self.prop += 1
                }
            }
            Node::ClassSet(cs) => {
                self.classset += 1;
                self.walk_cs(cs)
            }
            Node::Prop { .. } => self.prop += 1,
            Node::Bol | Node::Eol | Node::Wb | Node::NotWb => self.anchors += 1,
            _ => {}
        }
    }
    fn walk_cs(&mut self, cs: &Cs) {
        for op in &cs.ops {
            match op {
                CsOp::Q(_) => self.strings += 1,
                CsOp::Nested(c) => self.walk_cs(c),
                CsOp::Prop { .. } => self.prop += 1,
                _ => {}
            }
        }
    }
}

/// Render code points for humans / evidence files.
pub fn show(cps: &[u32]) -> String {
    let mut s = String::new();
    for &c in cps {
        match char::from_u32(c) {
            Some(ch) if (0x20..0x7f).contains(&c) => s.push(ch),
            Some(ch) if c >= 0xA0 && !matches!(c, 0x2028 | 0x2029 | 0xFEFF | 0x200C | 0x200D | 0x1680 | 0x2000..=0x200A | 0x202F | 0x205F | 0x3000) => {
                s.push(ch)
            }
            _ => s.push_str(&format!("\\u{{{:X}}}", c)),
        }
    }
    s
}

pub fn show_str(h: &str) -> String {
    show(&h.chars().map(|c| c as u32).collect::<Vec<_>>())
}

// ---------------------------------------------------------------------------------------------
// Generators

pub const ALPHABETS: &[&[u32]] = &[
    &[0x61, 0x62],
    &[0x61, 0x62, 0x41, 0x42],
    &[0x61, 0x62, 0x63, 0x78],
    &[0x73, 0x53, 0x17F, 0x6B, 0x4B, 0x212A],
    &[0xDF, 0x1E9E, 0x1C5, 0x1C4, 0x1C6, 0x3C3, 0x3C2, 0x3A3, 0x131, 0x130, 0x69, 0x49],
    &[0xE9, 0xC9, 0x10400, 0x10428, 0x1F600, 0x61],
    &[0x61, 0x0A, 0x0D, 0x2028, 0x2029],
    &[0x61, 0x09, 0xA0, 0x1680, 0x2003, 0x3000, 0xFEFF, 0x20],
    &[0x61, 0x5F, 0x2D, 0x30, 0x39, 0x20],
    &[0x61, 0x00, 0x7F, 0x41],
    &[0x61, 0x7A, 0x41, 0x5A, 0x6D],
    &[0x3B1, 0x391, 0x1F80, 0x1F88, 0x61],
    &[0x40, 0x60, 0x5B, 0x7B, 0x5C, 0x7C, 0x5D, 0x7D, 0x5E, 0x7E, 0x5F, 0x7F],
    &[0x61, 0x41, 0x5B, 0x7B, 0x7A, 0x5A, 0x60, 0x40],
    // characters whose UTF-8 encoding contains the bytes 0x80 / 0xBF / 0xC2 next to the code points U+0080, U+00BF
    &[0x61, 0x80, 0x100, 0x4E00, 0x10000, 0xBF, 0xFF],
    &[0x7F, 0x80, 0x7FF, 0x800, 0xFFFF, 0x10000],
    // members and near misses of the fixed sets: white space (U+180E, U+200B, U+0085, U+001C are NOT white space),
    // line terminators (VT, FF, NEL, U+2027, U+202A are not), digits / word characters (edges of the ASCII runs, non-ASCII digits and letters)
    &[0x20, 0x180E, 0x200B, 0x85, 0x1C, 0x2000, 0x200A, 0x202F, 0x205F, 0x0B, 0x0C, 0x61],
    &[0x0A, 0x0B, 0x0C, 0x0D, 0x85, 0x2027, 0x2028, 0x2029, 0x202A, 0x61],
    &[0x2F, 0x30, 0x39, 0x3A, 0x40, 0x41, 0x5A, 0x5B, 0x5F, 0x60, 0x61, 0x7A, 0x7B, 0x660, 0xAA, 0xB2],
];

pub const PROPS: &[&str] = &[
    "Lu", "Ll", "L", "Nd", "ASCII", "Alphabetic", "Script=Greek", "sc=Latin", "scx=Latin", "Any", "White_Space",
    "Uppercase", "Lowercase", "Letter", "P", "ASCII_Hex_Digit",
];

#[derive(Clone, Debug)]
pub struct GenCfg {
    pub fl: Fl,
    pub alpha: Vec<u32>,
    pub max_depth: u32,
    pub backref: bool,
    pub look: bool,
    pub named: bool,
    pub mods: bool,
    pub classes: bool,
    pub props: bool,
    pub anchors: bool,
    pub raw_escapes: bool,
    pub classset: bool,
    pub quant_w: u32,
    pub max_count: u32,
}

impl GenCfg {
    pub fn full(fl: Fl, alpha: Vec<u32>) -> GenCfg {
        GenCfg {
            fl,
            alpha,
            max_depth: 4,
            backref: true,
            look: true,
            named: true,
            mods: true,
            classes: true,
            props: true,
            anchors: true,
            raw_escapes: true,
            classset: true,
            quant_w: 6,
            max_count: 3,
        }
    }
}

pub fn gen_alphabet(src: &mut Src) -> Vec<u32> {
    if src.chance(1, 10) {
        // the equivalence classes (legacy and Unicode) of two arbitrary cased code points, plus a bystander
        let cased = &crate::props::c12::cased().0;
        let mut a: Vec<u32> = vec![];
        for _ in 0..2 {
            let c = *src.pick(cased);
            a.push(c);
            for uni in [false, true] {
                for p in crate::props::c12::partners(c, uni) {
                    if !a.contains(&p) {
                        a.push(p);
                    }
                }
            }
        }
        a.push(0x7A);
        return a;
    }
    let mut a = src.pick(ALPHABETS).to_vec();
    if src.chance(1, 4) {
        // one foreign character
        a.push(*src.pick(&[0x7A, 0x31, 0x20, 0xE4, 0x4E2D, 0x1F600, 0x2D, 0x5F]));
    }
    a
}

pub fn gen_char(src: &mut Src, cfg: &GenCfg) -> u32 {
    *src.pick(&cfg.alpha)
}

fn raw_escape(src: &mut Src, cfg: &GenCfg, c: u32) -> Option<Vec<u32>> {
    let mut out = vec![];
    let k = src.below(6);
    let s = match k {
        0 if c <= 0xFF => format!("\\x{:02x}", c),
        1 if c <= 0xFFFF => format!("\\u{:04X}", c),
        2 if cfg.fl.unicode() => format!("\\u{{{:X}}}", c),
        3 if c > 0xFFFF => {
            let v = c - 0x10000;
            format!("\\u{:04X}\\u{:04X}", 0xD800 + (v >> 10), 0xDC00 + (v & 0x3FF))
        }
        4 if (1..=26).contains(&c) => format!("\\c{}", (b'A' + (c as u8) - 1) as char),
        5 if c == 0 => "\\0".to_string(),
        5 if c == 0x0A => "\\n".to_string(),
        5 if c == 0x0D => "\\r".to_string(),
        5 if c == 0x09 => "\\t".to_string(),
        _ => return None,
    };
    push_str(&mut out, &s);
    Some(out)
}

/// sometimes stretch a class range to a boundary of the code space or of a UTF-8 / UTF-16 length class
fn range_to_boundary(src: &mut Src, lo: u32, hi: u32) -> (u32, u32) {
    match src.weighted(&[12, 1, 1]) {
        0 => (lo, hi),
        1 => {
            let c: Vec<u32> = [0x7F, 0x7FF, 0xD7FF, 0xFFFF, 0x10FFFF].iter().copied().filter(|b| *b >= hi).collect();
            (lo, *src.pick(&c))
        }
        _ => {
            let c: Vec<u32> = [0, 0x80, 0x800, 0xE000, 0x10000].iter().copied().filter(|b| *b <= lo).collect();
            (*src.pick(&c), hi)
        }
    }
}

pub fn gen_class_item(src: &mut Src, cfg: &GenCfg) -> ClassItem {
    match src.weighted(&[6, 3, 2, if cfg.props && cfg.fl.unicode() { 1 } else { 0 }]) {
        0 => ClassItem::Ch(gen_char(src, cfg)),
        1 => {
            let a = gen_char(src, cfg);
            let b = gen_char(src, cfg);
            let (lo, hi) = if a <= b { (a, b) } else { (b, a) };
            // widen sometimes
            let hi = if src.chance(1, 3) { (hi + src.below(40)).min(0x10FFFF) } else { hi };
            let (lo, hi) = range_to_boundary(src, lo, hi);
            ClassItem::Range(lo, hi)
        }
        2 => ClassItem::Esc(*src.pick(b"dwsDWS")),
        _ => ClassItem::Prop { neg: src.chance(1, 4), name: *src.pick(PROPS) },
    }
}

pub fn gen_class(src: &mut Src, cfg: &GenCfg) -> Node {
    let n = src.weighted(&[2, 4, 3, 2, 1, 1]);
    let items = (0..n).map(|_| gen_class_item(src, cfg)).collect();
    Node::Class { neg: src.chance(1, 3), items }
}

pub fn gen_cs_op(src: &mut Src, cfg: &GenCfg, depth: u32) -> CsOp {
    let w_nested = if depth < 3 { 3 } else { 0 };
    match src.weighted(&[6, 3, 2, if cfg.props { 1 } else { 0 }, 3, w_nested]) {
        0 => CsOp::Ch(gen_char(src, cfg)),
        1 => {
            let a = gen_char(src, cfg);
            let b = gen_char(src, cfg);
            let (lo, hi) = if a <= b { (a, b) } else { (b, a) };
            let (lo, hi) = range_to_boundary(src, lo, hi);
            CsOp::Range(lo, hi)
        }
        2 => CsOp::Esc(*src.pick(b"dwsDWS")),
        3 => CsOp::Prop { neg: src.chance(1, 4), name: *src.pick(PROPS) },
        4 => {
            let ns = src.weighted(&[1, 4, 3, 2]);
            let strs = (0..ns)
                .map(|_| {
                    let l = src.weighted(&[1, 2, 4, 2]);
                    (0..l).map(|_| gen_char(src, cfg)).collect()
                })
                .collect();
            CsOp::Q(strs)
        }
        _ => CsOp::Nested(Box::new(gen_cs(src, cfg, depth + 1))),
    }
}

fn cs_may_contain_strings(cs: &Cs) -> bool {
    let op_strings = |op: &CsOp| match op {
        CsOp::Q(strs) => strs.is_empty() || strs.iter().any(|s| s.len() != 1),
        CsOp::Nested(c) => !c.neg && cs_may_contain_strings(c),
        _ => false,
    };
    match cs.kind {
        CsKind::Union => cs.ops.iter().any(op_strings),
        CsKind::Inter => cs.ops.iter().all(op_strings),
        CsKind::Sub => cs.ops.first().map(op_strings).unwrap_or(false),
    }
}

pub fn gen_cs(src: &mut Src, cfg: &GenCfg, depth: u32) -> Cs {
    let kind = match src.weighted(&[5, 2, 2]) {
        0 => CsKind::Union,
        1 => CsKind::Inter,
        _ => CsKind::Sub,
    };
    let n = match kind {
        CsKind::Union => src.weighted(&[1, 3, 4, 2, 1]),
        _ => 2 + src.weighted(&[5, 1]),
    };
    let mut ops: Vec<CsOp> = (0..n).map(|_| gen_cs_op(src, cfg, depth)).collect();
    if kind != CsKind::Union {
        // ranges are not operands of && / --: wrap them
        for op in ops.iter_mut() {
            if let CsOp::Range(a, b) = op {
                *op = CsOp::Nested(Box::new(Cs { neg: false, kind: CsKind::Union, ops: vec![CsOp::Range(*a, *b)] }));
            }
        }
    }
    let mut cs = Cs { neg: false, kind, ops };
    if src.chance(1, 4) && !cs_may_contain_strings(&cs) {
        cs.neg = true;
    }
    cs
}

fn gen_quant(src: &mut Src, cfg: &GenCfg, body: Node) -> Node {
    let mc = cfg.max_count;
    let (min, max) = match src.weighted(&[3, 3, 3, 2, 2, 2, 1, 1]) {
        0 => (0, None),
        1 => (1, None),
        2 => (0, Some(1)),
        3 => {
            let n = src.range(0, mc);
            (n, Some(n))
        }
        4 => {
            let a = src.range(0, mc);
            (a, Some(a + src.range(0, mc)))
        }
        5 => (src.range(0, mc), None),
        6 => (0, Some(0)),
        _ => (2, Some(2 + src.below(2))),
    };
    Node::Quant { body: Box::new(body), min, max, lazy: src.chance(1, 3), braces: src.chance(1, 5) }
}

pub fn gen_node(src: &mut Src, cfg: &GenCfg, depth: u32) -> Node {
    let deep = depth >= cfg.max_depth;
    let w = |b: bool, x: u32| if b { x } else { 0 };
    let weights = [
        8,                                                // 0 lit
        2,                                                // 1 dot
        w(cfg.classes, 2),                                // 2 escape class
        w(cfg.classes, 3),                                // 3 bracket
        w(!deep, 6),                                      // 4 cat
        w(!deep, 4),                                      // 5 alt
        w(!deep, 4),                                      // 6 group
        w(!deep, 2),                                      // 7 noncap
        w(!deep, cfg.quant_w),                            // 8 quant
        w(cfg.backref, 3),                                // 9 backref
        w(cfg.look && !deep, 3),                          // 10 look
        w(cfg.anchors, 3),                                // 11 anchors
        w(cfg.mods && !deep, 1),                          // 12 modifiers
        w(cfg.props && cfg.fl.unicode(), 1),              // 13 prop
        1,                                                // 14 empty
        w(cfg.raw_escapes, 1),                            // 15 raw escape
        w(cfg.classset && cfg.fl.mode == Mode::V, 3),     // 16 class set
        w(cfg.named && cfg.backref, 1),                   // 17 named ref
        w(!deep && depth <= 1, 1),                        // 18 long literal run (crosses the emitter's 16-byte chunks)
    ];
    match src.weighted(&weights) {
        0 => Node::Lit(gen_char(src, cfg)),
        1 => Node::Dot,
        2 => Node::Esc(*src.pick(b"dwsDWS")),
        3 => gen_class(src, cfg),
        4 => {
            let n = 2 + src.weighted(&[4, 3, 1]);
            Node::Cat((0..n).map(|_| gen_node(src, cfg, depth + 1)).collect())
        }
        5 => {
            let n = 2 + src.weighted(&[5, 2]);
            Node::Alt((0..n).map(|_| gen_node(src, cfg, depth + 1)).collect())
        }
        6 => {
            let name = if cfg.named && src.chance(1, 4) { Some(format!("n{}", src.below(1000))) } else { None };
            Node::Group { name, body: Box::new(gen_node(src, cfg, depth + 1)) }
        }
        7 => Node::NonCap(Box::new(gen_node(src, cfg, depth + 1))),
        8 => {
            let body = gen_node(src, cfg, depth + 1);
            gen_quant(src, cfg, body)
        }
        9 => Node::BackRef(src.below(8)),
        10 => Node::Look {
            behind: src.chance(1, 2),
            neg: src.chance(1, 3),
            body: Box::new(gen_node(src, cfg, depth + 1)),
        },
        11 => match src.below(4) {
            0 => Node::Bol,
            1 => Node::Eol,
            2 => Node::Wb,
            _ => Node::NotWb,
        },
        12 => {
            let on = src.below(8) as u8;
            let mut off = src.below(8) as u8 & !on;
            if on == 0 && off == 0 {
                off = 1;
            }
            Node::Mods { on, off, body: Box::new(gen_node(src, cfg, depth + 1)) }
        }
        13 => Node::Prop { neg: src.chance(1, 4), name: *src.pick(PROPS) },
        14 => Node::Empty,
        15 => {
            let c = gen_char(src, cfg);
            match raw_escape(src, cfg, c) {
                Some(v) => Node::Raw(v),
                None => Node::Lit(c),
            }
        }
        16 => Node::ClassSet(gen_cs(src, cfg, 0)),
        17 => Node::NamedRef(src.below(4)),
        _ => gen_literal_run(src, cfg),
    }
}

/// a run of literals whose UTF-8 length is around a multiple of 16 bytes
pub fn gen_literal_run(src: &mut Src, cfg: &GenCfg) -> Node {
    let target = *src.pick(&[15u32, 16, 17, 18, 31, 32, 33, 34, 48, 49]);
    let mut v = vec![];
    let mut bytes = 0;
    while bytes < target {
        let c = gen_char(src, cfg);
        bytes += char::from_u32(c).map(|c| c.len_utf8() as u32).unwrap_or(3);
        v.push(Node::Lit(c));
    }
    Node::Cat(v)
}

/// Make group names unique (duplicates are only legal across alternatives; the generic
/// generator does not try to place them). A dedicated generator creates legal duplicates.
pub fn uniquify_names(n: &mut Node, counter: &mut u32) {
    match n {
        Node::Group { name, body } => {
            if name.is_some() {
                *counter += 1;
                *name = Some(format!("n{}", *counter));
            }
            uniquify_names(body, counter);
        }
        Node::NonCap(b) | Node::Mods { body: b, .. } | Node::Look { body: b, .. } | Node::Quant { body: b, .. } => {
            uniquify_names(b, counter)
        }
        Node::Cat(v) | Node::Alt(v) => v.iter_mut().for_each(|x| uniquify_names(x, counter)),
        _ => {}
    }
}

pub fn gen_pattern(src: &mut Src, cfg: &GenCfg) -> Node {
    let mut n = match src.weighted(&[1, 3]) {
        0 => gen_node(src, cfg, 1),
        _ => {
            let k = 2 + src.weighted(&[3, 3, 2]);
            Node::Cat((0..k).map(|_| gen_node(src, cfg, 1)).collect())
        }
    };
    let mut c = 0;
    uniquify_names(&mut n, &mut c);
    n
}

pub fn gen_hay_cps(src: &mut Src, alpha: &[u32], maxlen: u32) -> Vec<u32> {
    let len = src.range(0, maxlen);
    (0..len)
        .map(|_| {
            if src.chance(1, 12) {
                *src.pick(&[0x7A, 0x20, 0x0A, 0x31, 0xE4, 0x4E2D, 0x1F600, 0x5F])
            } else {
                *src.pick(alpha)
            }
        })
        .collect()
}

pub fn cps_to_string(cps: &[u32]) -> String {
    cps.iter().filter_map(|c| char::from_u32(*c)).collect()
}

pub fn gen_hay(src: &mut Src, alpha: &[u32], maxlen: u32) -> String {
    cps_to_string(&gen_hay_cps(src, alpha, maxlen))
}

/// All char boundaries of `h`, plus len+1.
pub fn starts_of(h: &str) -> Vec<usize> {
    let mut v: Vec<usize> = h.char_indices().map(|(i, _)| i).collect();
    v.push(h.len());
    v.push(h.len() + 1);
    v
}

pub fn gen_start(src: &mut Src, h: &str) -> usize {
    let v = starts_of(h);
    // bias to 0
    if src.chance(1, 2) {
        *src.pick(&v)
    } else {
        0
    }
}

// ---------------------------------------------------------------------------------------------
// Witness haystacks: a random string from (an approximation of) the pattern's language, so that
// long literals, counted loops and lookbehind contexts are actually reached.

pub struct Sampler {
    pub groups: Vec<Vec<u32>>,
    pub icase: bool,
}

fn other_case(c: u32) -> u32 {
    match char::from_u32(c) {
        Some(ch) => {
            let up: Vec<char> = ch.to_uppercase().collect();
            let lo: Vec<char> = ch.to_lowercase().collect();
            if up.len() == 1 && up[0] != ch {
                up[0] as u32
            } else if lo.len() == 1 && lo[0] != ch {
                lo[0] as u32
            } else {
                c
            }
        }
        None => c,
    }
}

impl Sampler {
    pub fn new(icase: bool) -> Sampler {
        Sampler { groups: vec![], icase }
    }

    fn ch(&self, src: &mut Src, c: u32, out: &mut Vec<u32>) {
        if self.icase && src.chance(1, 3) {
            out.push(other_case(c))
        } else {
            out.push(c)
        }
    }

    fn class_item(&self, src: &mut Src, it: &ClassItem, alpha: &[u32]) -> u32 {
        match it {
            ClassItem::Ch(c) => *c,
            ClassItem::Range(a, b) => {
                if src.chance(1, 2) {
                    *a
                } else {
                    (*a + src.below(b - a + 1)).min(*b)
                }
            }
            ClassItem::Esc(e) => match *e {
                b'd' => 0x30 + src.below(10),
                b'w' => *src.pick(&[0x61, 0x5F, 0x39, 0x5A]),
                b's' => *src.pick(&[0x20, 0x0A, 0x09, 0xA0, 0x2028]),
                _ => *src.pick(alpha),
            },
            ClassItem::Prop { .. } => *src.pick(alpha),
        }
    }

    pub fn sample(&mut self, src: &mut Src, n: &Node, alpha: &[u32], out: &mut Vec<u32>) {
        match n {
            Node::Empty | Node::Bol | Node::Eol | Node::Wb | Node::NotWb => {}
            Node::Lit(c) => self.ch(src, *c, out),
            Node::Raw(_) => out.push(*src.pick(alpha)),
            Node::Dot => out.push(*src.pick(alpha)),
            Node::Esc(e) => {
                let c = self.class_item(src, &ClassItem::Esc(*e), alpha);
                out.push(c)
            }
            Node::Prop { .. } => out.push(*src.pick(alpha)),
            Node::Class { neg, items } => {
                if *neg || items.is_empty() {
                    out.push(*src.pick(alpha))
                } else {
                    let it = src.pick(items).clone();
                    let c = self.class_item(src, &it, alpha);
                    self.ch(src, c, out)
                }
            }
            Node::ClassSet(cs) => self.sample_cs(src, cs, alpha, out),
            Node::Cat(v) => {
                for x in v {
                    self.sample(src, x, alpha, out)
                }
            }
            Node::Alt(v) => {
                // groups in the arms not taken still need slots: walk them into a scratch buffer first
                let k = src.below(v.len() as u32) as usize;
                for (i, x) in v.iter().enumerate() {
                    if i == k {
                        self.sample(src, x, alpha, out)
                    } else {
                        self.skip(x)
                    }
                }
            }
            Node::Group { body, .. } => {
                let idx = self.groups.len();
                self.groups.push(vec![]);
                let start = out.len();
                self.sample(src, body, alpha, out);
                self.groups[idx] = out[start..].to_vec();
            }
            Node::NonCap(b) | Node::Mods { body: b, .. } => self.sample(src, b, alpha, out),
            Node::Look { behind, neg, body } => {
                if *behind && !*neg {
                    self.sample(src, body, alpha, out)
                } else {
                    self.skip(body)
                }
            }
            Node::Quant { body, min, max, .. } => {
                let hi = max.unwrap_or(min + 2).min(min + 2);
                let k = if hi > *min { min + src.below(hi - min + 1) } else { *min };
                let g0 = self.groups.len();
                if k == 0 {
                    self.skip(body)
                }
                for i in 0..k {
                    if i > 0 {
                        self.groups.truncate(g0);
                    }
                    self.sample(src, body, alpha, out)
                }
            }
            Node::BackRef(k) => {
                if !self.groups.is_empty() {
                    let g = self.groups[*k as usize % self.groups.len()].clone();
                    for c in g {
                        self.ch(src, c, out)
                    }
                }
            }
            Node::NamedRef(_) => {}
        }
    }

    fn skip(&mut self, n: &Node) {
        for _ in 0..count_groups(n) {
            self.groups.push(vec![]);
        }
    }

    fn sample_cs(&mut self, src: &mut Src, cs: &Cs, alpha: &[u32], out: &mut Vec<u32>) {
        if cs.neg || cs.ops.is_empty() {
            out.push(*src.pick(alpha));
            return;
        }
        let op = match cs.kind {
            CsKind::Union => src.pick(&cs.ops).clone(),
            _ => cs.ops[0].clone(),
        };
        match op {
            CsOp::Ch(c) => self.ch(src, c, out),
            CsOp::Range(a, b) => out.push(if src.chance(1, 2) { a } else { b }),
            CsOp::Esc(e) => {
                let c = self.class_item(src, &ClassItem::Esc(e), alpha);
                out.push(c)
            }
            CsOp::Prop { .. } => out.push(*src.pick(alpha)),
            CsOp::Q(strs) => {
                if !strs.is_empty() {
                    let s = src.pick(&strs).clone();
                    for c in s {
                        self.ch(src, c, out)
                    }
                }
            }
            CsOp::Nested(inner) => self.sample_cs(src, &inner, alpha, out),
        }
    }
}

/// junk + sample + junk
pub fn witness_hay(src: &mut Src, n: &Node, fl: Fl, alpha: &[u32], junk: u32) -> String {
    let mut out: Vec<u32> = vec![];
    for _ in 0..src.below(junk + 1) {
        out.push(*src.pick(alpha));
    }
    let mut s = Sampler::new(fl.i);
    s.sample(src, n, alpha, &mut out);
    for _ in 0..src.below(junk + 1) {
        out.push(*src.pick(alpha));
    }
    out.truncate(64);
    cps_to_string(&out)
}
