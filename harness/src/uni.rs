//! Independent Unicode case data for the oracles (never taken from regress).
//!
//! * legacy (non-u) Canonicalize: Rust std full upper-casing (Unicode 17 on this toolchain) + the ES rule
//!   (multi-character result -> unchanged; non-ASCII -> ASCII -> unchanged).
//! * u/v Canonicalize: simple case folding classes. Source: regex-syntax's simple case folding orbits
//!   (Unicode 16), extended for characters newer than its tables by std's simple lower/upper mappings
//!   when the committed Unicode-17 class list (oracle/scf17_classes.txt) is absent.

use regex_syntax::hir::{ClassUnicode, ClassUnicodeRange};
use std::collections::HashMap;
use std::sync::OnceLock;

pub fn legacy_canon(c: u32) -> u32 {
    let ch = match char::from_u32(c) {
        Some(ch) => ch,
        None => return c,
    };
    let mut up = ch.to_uppercase();
    let first = up.next();
    if up.next().is_some() {
        return c;
    }
    let u = first.map(|x| x as u32).unwrap_or(c);
    if c >= 128 && u < 128 {
        return c;
    }
    u
}

fn std_cased(ch: char) -> bool {
    let mut lo = ch.to_lowercase();
    let mut up = ch.to_uppercase();
    !(lo.next() == Some(ch) && lo.next().is_none() && up.next() == Some(ch) && up.next().is_none())
}

pub struct Scf {
    /// code point -> representative (minimum) of its simple-case-folding class
    pub rep: HashMap<u32, u32>,
    /// representative -> all members (sorted)
    pub classes: HashMap<u32, Vec<u32>>,
    pub source: String,
}

fn build_scf() -> Scf {
    let mut rep: HashMap<u32, u32> = HashMap::new();
    let mut classes: HashMap<u32, Vec<u32>> = HashMap::new();
    let path = format!("{}/oracle/scf17_classes.txt", crate::drv::verif_dir());
    if let Ok(txt) = std::fs::read_to_string(&path) {
        for line in txt.lines() {
            let line = line.trim();
            if line.is_empty() || line.starts_with('#') {
                continue;
            }
            let mut m: Vec<u32> = line.split_whitespace().filter_map(|x| u32::from_str_radix(x, 16).ok()).collect();
            m.sort();
            if m.len() >= 2 {
                for c in &m {
                    rep.insert(*c, m[0]);
                }
                classes.insert(m[0], m);
            }
        }
        return Scf { rep, classes, source: format!("{} (exported from V8/ICU, Unicode 17)", path) };
    }
    for c in 0..=0x10FFFFu32 {
        let ch = match char::from_u32(c) {
            Some(ch) => ch,
            None => continue,
        };
        if !std_cased(ch) || rep.contains_key(&c) {
            continue;
        }
        let mut cls = ClassUnicode::new([ClassUnicodeRange::new(ch, ch)]);
        let _ = cls.try_case_fold_simple();
        let mut m: Vec<u32> = vec![];
        for r in cls.iter() {
            for x in (r.start() as u32)..=(r.end() as u32) {
                m.push(x);
            }
        }
        if m.len() < 2 {
            // not in regex-syntax's (Unicode 16) table: fall back to std's simple mappings for newer characters
            let lo: Vec<char> = ch.to_lowercase().collect();
            let up: Vec<char> = ch.to_uppercase().collect();
            m = vec![c];
            if lo.len() == 1 && lo[0] != ch {
                m.push(lo[0] as u32)
            }
            if up.len() == 1 && up[0] != ch {
                m.push(up[0] as u32)
            }
        }
        m.sort();
        m.dedup();
        if m.len() >= 2 {
            for x in &m {
                rep.insert(*x, m[0]);
            }
            classes.insert(m[0], m);
        }
    }
    Scf { rep, classes, source: "regex-syntax 0.8 simple case folding (Unicode 16) + std simple mappings for newer characters".into() }
}

pub fn scf() -> &'static Scf {
    static S: OnceLock<Scf> = OnceLock::new();
    S.get_or_init(build_scf)
}

/// Representative of the u/v canonical class of `c` (equal representatives <=> equal scf).
pub fn unicode_canon(c: u32) -> u32 {
    *scf().rep.get(&c).unwrap_or(&c)
}

pub fn canon(c: u32, unicode: bool) -> u32 {
    if unicode {
        unicode_canon(c)
    } else {
        legacy_canon(c)
    }
}

/// Left-to-right non-overlapping occurrences of `s` in `t` under canonical equivalence.
pub fn icase_occurrences(s: &str, t: &str, unicode: bool) -> Vec<(usize, usize)> {
    let pat: Vec<u32> = s.chars().map(|c| canon(c as u32, unicode)).collect();
    let text: Vec<(usize, u32)> = t.char_indices().map(|(i, c)| (i, canon(c as u32, unicode))).collect();
    let off = |k: usize| if k < text.len() { text[k].0 } else { t.len() };
    let mut out = vec![];
    let mut k = 0;
    while k <= text.len() {
        if k + pat.len() <= text.len() && (0..pat.len()).all(|j| text[k + j].1 == pat[j]) {
            out.push((off(k), off(k + pat.len())));
            k += pat.len().max(1);
        } else {
            k += 1;
        }
    }
    out
}
