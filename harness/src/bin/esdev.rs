//! Development-time tool (not used by any registered check): dumps generated cases with the reference model's verdict
//! as JSON lines, for cross-validation against V8 (oracle/crosscheck_v8.js).
//! usage: esdev match|soup|class N SEED
use rvh::drv::{Case, Tier};
use rvh::esref;
use rvh::pat::*;
use rvh::props::common::*;
use rvh::soup::*;
use rvh::src::{splitmix, Src};
use serde_json::json;

fn units(cps: &[u32]) -> Option<Vec<u16>> {
    let mut v = vec![];
    for c in cps {
        let ch = char::from_u32(*c)?;
        let mut b = [0u16; 2];
        v.extend_from_slice(ch.encode_utf16(&mut b));
    }
    Some(v)
}

fn main() {
    let a: Vec<String> = std::env::args().collect();
    let mode = a.get(1).map(|s| s.as_str()).unwrap_or("match");
    let n: usize = a.get(2).and_then(|s| s.parse().ok()).unwrap_or(1000);
    let seed: u64 = a.get(3).and_then(|s| s.parse().ok()).unwrap_or(1);
    if mode == "strings" {
        // dump the strings regress holds for each property of strings (candidates for oracle/export_strings_v8.js)
        for name in ["Basic_Emoji", "Emoji_Keycap_Sequence", "RGI_Emoji_Flag_Sequence", "RGI_Emoji_Modifier_Sequence", "RGI_Emoji_Tag_Sequence", "RGI_Emoji_ZWJ_Sequence", "RGI_Emoji"] {
            if let Some(v) = regress::verif::string_property_strings(name) {
                println!("{}", json!({"name": name, "strings": v}));
            }
        }
        return;
    }
    if mode == "triples" || mode == "brackets" {
        // the bounded-exhaustive syntax slices of C08 / C12 as acceptance questions for V8 (development time)
        let cases = if mode == "triples" { rvh::props::c08::core_cases(Tier::Quick) } else { rvh::props::c12::bracket_cases() };
        for c in cases {
            let fl = Fl::parse(&c.flags);
            let pu = match units(&c.pat) {
                Some(u) => u,
                None => continue,
            };
            let r = esref::accepts(&c.pat, fl);
            println!("{}", json!({"k": "soup", "p": pu, "f": fl.text(), "ok": r.is_ok(), "err": r.err().unwrap_or_default()}));
        }
        return;
    }
    if mode == "bracketmatch" || mode == "flagslice" || mode == "smallslice" {
        // membership / match questions of the bounded-exhaustive slices, for V8 (development time)
        let cases: Vec<Case> = if mode == "bracketmatch" { rvh::props::c12::bracket_cases() } else if mode == "smallslice" { rvh::props::c01::small_slice(true).iter().step_by(n.max(1)).cloned().collect() } else { rvh::props::c01::flag_slice().iter().step_by(n.max(1)).cloned().collect() };
        let hays3: Vec<String> = if mode == "smallslice" { rvh::props::common::all_strings(&[0x61, 0x62], 4) } else { rvh::props::common::all_strings(&[0x61, 0x41, 0x0A], 3) };
        for c in cases {
            let fl = Fl::parse(&c.flags);
            let pu = match units(&c.pat) {
                Some(u) => u,
                None => continue,
            };
            let r = match esref::compile(&c.pat, fl) {
                Ok(r) => r,
                Err(_) => continue,
            };
            let probes: Vec<String> = if mode == "bracketmatch" { c.x["probes"].as_array().map(|a| a.iter().filter_map(|v| v.as_str().map(|s| s.to_string())).collect()).unwrap_or_default() } else { hays3.clone() };
            for h in probes {
                if fl.mode == Mode::Legacy && h.chars().any(|ch| ch as u32 > 0xFFFF) {
                    continue;
                }
                let to16 = |b: usize| -> usize { h[..b].chars().map(|c| c.len_utf16()).sum() };
                let exp = match r.find(&h, 0, 2_000_000).0 {
                    esref::Found::Aborted => json!("abort"),
                    esref::Found::NoMatch => json!(null),
                    esref::Found::Match(m) => json!({"s": to16(m.s), "e": to16(m.e), "caps": m.caps.iter().map(|c| c.map(|(a, b)| vec![to16(a), to16(b)])).collect::<Vec<_>>()}),
                };
                println!("{}", json!({"k": "match", "p": pu, "f": fl.text(), "h": h.encode_utf16().collect::<Vec<u16>>(), "s": 0, "exp": exp}));
            }
        }
        return;
    }
    let mut st = splitmix(seed);
    for _ in 0..n {
        let choices: Vec<u32> = (0..400)
            .map(|_| {
                st = splitmix(st);
                (st >> 32) as u32
            })
            .collect();
        let mut src = Src::new(&choices);
        if mode == "soup" {
            let p = gen_soup(&mut src, 10);
            let fl = gen_flags_any(&mut src);
            let pu = match units(&p) {
                Some(u) => u,
                None => continue,
            };
            let ok = esref::accepts(&p, fl).is_ok();
            let err = esref::accepts(&p, fl).err().unwrap_or_default();
            println!("{}", json!({"k": "soup", "p": pu, "f": fl.text(), "ok": ok, "err": err}));
            continue;
        }
        fn tweak(cfg: &mut GenCfg, _s: &mut Src) {
            cfg.mods = false;
        }
        let g = gen_general(&mut src, Tier::Quick, 8, 8, tweak);
        let fl = g.fl;
        let bmp_only = fl.mode == Mode::Legacy;
        if bmp_only && (g.case.pat.iter().any(|c| *c > 0xFFFF) || g.case.hay.chars().any(|c| c as u32 > 0xFFFF)) {
            continue;
        }
        let pu = match units(&g.case.pat) {
            Some(u) => u,
            None => continue,
        };
        let hay = &g.case.hay;
        if g.case.start > hay.len() {
            continue;
        }
        let s16: usize = hay[..g.case.start].chars().map(|c| c.len_utf16()).sum();
        let to16 = |b: usize| -> usize { hay[..b].chars().map(|c| c.len_utf16()).sum() };
        let exp = match esref::compile(&g.case.pat, fl) {
            Err(esref::RefErr::Syntax(e)) => json!({"syntax": e}),
            Err(esref::RefErr::Decline(e)) => json!({"decline": e}),
            Ok(r) => match r.find(hay, g.case.start, 2_000_000).0 {
                esref::Found::Aborted => json!("abort"),
                esref::Found::NoMatch => json!(null),
                esref::Found::Match(m) => json!({"s": to16(m.s), "e": to16(m.e), "caps": m.caps.iter().map(|c| c.map(|(a, b)| vec![to16(a), to16(b)])).collect::<Vec<_>>()}),
            },
        };
        println!("{}", json!({"k": "match", "p": pu, "f": fl.text(), "h": hay.encode_utf16().collect::<Vec<u16>>(), "s": s16, "exp": exp}));
    }
}
