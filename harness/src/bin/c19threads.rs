//! C19 (c): threads sharing a Regex. usage: c19threads <rounds> <seed> ; prints one JSON line.
use rvh::drv::*;
use rvh::pat::*;
use rvh::props::c19::*;
use rvh::run::*;
use rvh::src::{splitmix, Src};
use serde_json::json;

fn main() {
    let args: Vec<String> = std::env::args().collect();
    let rounds: usize = args.get(1).and_then(|s| s.parse().ok()).unwrap_or(1000);
    let seed: u64 = args.get(2).and_then(|s| s.parse().ok()).unwrap_or(1);
    install_quiet_panic_hook();
    let mut violations = vec![];
    let mut nontrivial = 0u64;
    let mut queries = 0u64;
    let mut sample = serde_json::Value::Null;
    let mut state = splitmix(seed ^ 0xC19);
    for round in 0..rounds {
        // choice vector from a PRNG stream that is a pure function of the seed
        let choices: Vec<u32> = (0..500)
            .map(|_| {
                state = splitmix(state);
                (state >> 32) as u32
            })
            .collect();
        let mut src = Src::new(&choices);
        let case = gen_case(&mut src, Tier::Thorough);
        let nthreads = 2 + src.below(15) as usize;
        let fl = Fl::parse(&case.flags);
        let qs = queries_from(&case.x["queries"]);
        let re = match compile(&case.pat, fl, false) {
            Ok(r) => r,
            Err(_) => continue,
        };
        let seq: Vec<Out> = qs.iter().map(|q| run_query(&re, q)).collect();
        if seq.iter().any(|o| o.is_cut()) {
            continue;
        }
        // assignment of queries to threads, per-thread order and yield points: generated
        let mut shares: Vec<Vec<(usize, bool)>> = vec![vec![]; nthreads];
        for rep in 0..3 {
            for i in 0..qs.len() {
                let t = src.below(nthreads as u32) as usize;
                shares[t].push((i, src.chance(1, 3)));
                let _ = rep;
            }
        }
        for s in shares.iter_mut() {
            if src.chance(1, 2) {
                s.reverse();
            }
        }
        let re_ref = &re;
        let qs_ref = &qs;
        let results: Vec<Vec<(usize, Out)>> = std::thread::scope(|sc| {
            let hs: Vec<_> = shares
                .iter()
                .enumerate()
                .map(|(t, share)| {
                    let share = share.clone();
                    sc.spawn(move || {
                        let own = if t % 2 == 1 { Some(re_ref.clone()) } else { None };
                        let r: &regress::Regex = own.as_ref().unwrap_or(re_ref);
                        let mut buf = String::with_capacity(64);
                        share
                            .iter()
                            .map(|(i, y)| {
                                if *y {
                                    std::thread::yield_now();
                                }
                                buf.clear();
                                buf.push_str(&qs_ref[*i].hay);
                                (*i, run_query_on(r, &qs_ref[*i], &buf))
                            })
                            .collect::<Vec<_>>()
                    })
                })
                .collect();
            hs.into_iter().map(|h| h.join().unwrap_or_default()).collect()
        });
        let mut bad = None;
        for (t, rs) in results.iter().enumerate() {
            for (i, o) in rs {
                queries += 1;
                if !o.is_cut() && *o != seq[*i] {
                    bad = Some(format!("thread {} of {}: query {} ({:?}) = {} but sequentially {}", t, nthreads, i, qs[*i], o.show(), seq[*i].show()));
                }
            }
        }
        if let Some(msg) = bad {
            if violations.len() < 5 {
                violations.push(json!({"case": case.to_json(), "msg": msg}));
            }
        }
        let any = seq.iter().any(|o| matches!(o, Out::Ms(v) if !v.is_empty()));
        if nthreads >= 4 && any {
            nontrivial += 1;
            if sample.is_null() {
                sample = json!({"text": format!("{} threads; {}", nthreads, case.show())});
            }
        }
        let _ = round;
    }
    // ---- stage 2: fixed resource-heavy shapes (deep lookaround / group nesting, backreferences, loops), every
    // executor and entry point, 48 threads hammering one shared Regex and clones at the same time. Anything
    // process-wide (a static counter, a shared scratch buffer, a lazily filled cache) shows as a deviation from
    // the sequential result.
    let (hv, hq, hn) = heavy_stage();
    queries += hq;
    nontrivial += hn;
    for v in hv {
        if violations.len() < 8 {
            violations.push(v);
        }
    }
    println!("{}", json!({"c19threads": 1, "rounds": rounds, "nontrivial": nontrivial, "queries": queries, "violations": violations, "sample": sample}));
}

fn nest(open: &str, inner: &str, close: &str, d: usize) -> String {
    let mut p = String::new();
    for _ in 0..d {
        p.push_str(open);
    }
    p.push_str(inner);
    for _ in 0..d {
        p.push_str(close);
    }
    p
}

fn heavy_stage() -> (Vec<serde_json::Value>, u64, u64) {
    let mut shapes: Vec<(String, &str, String)> = vec![];
    for d in [6usize, 12, 24, 40, 64] {
        shapes.push((format!("{}a+", nest("(?=a", "", ")", d)), "", "a".repeat(d + 8)));
        shapes.push((format!("a{}", nest("(?<=a", "", ")", d)), "", "a".repeat(d + 8)));
        shapes.push((format!("{}a", nest("(?!b", "", ")", d)), "", "ab".repeat(8)));
        shapes.push((format!("{}b", nest("(?<!b", "c", ")", d)), "", "acb".repeat(6)));
        shapes.push((format!("{}\\1", nest("(", "a", ")", d)), "", "aa".repeat(4)));
        shapes.push((format!("{}b", nest("(?:", "a", ")?", d)), "i", "AaAb".to_string()));
        shapes.push((format!("{}", nest("(?=(a)", "\\1", ")", d.min(24))), "u", "a".repeat(d + 4)));
    }
    shapes.push(("(a|b)*?c\\1{2,3}(?<=\\1)".into(), "", "ababcbbbabc".into()));
    shapes.push(("(?<n>[\\p{L}--[a-f]]+)\\k<n>".into(), "iv", "xyzXYZ héHÉ".into()));
    shapes.push(("\\b\\w+\\b(?=.*\\1?)".into(), "s", "the quick\nbrown fox".into()));
    let mut viol = vec![];
    let mut queries = 0u64;
    let mut nontrivial = 0u64;
    for (pat, flags, hay) in &shapes {
        let cps: Vec<u32> = pat.chars().map(|c| c as u32).collect();
        let fl = Fl::parse(flags);
        let re = match compile(&cps, fl, false) {
            Ok(r) => r,
            Err(_) => continue,
        };
        let mut qs: Vec<Query> = vec![];
        for api in [0u8, 2, 3, 4, 5, 1] {
            for start in [0usize, 1] {
                qs.push(Query { hay: hay.clone(), start, api, take: usize::MAX, which: 0 });
            }
        }
        let seq: Vec<Out> = qs.iter().map(|q| run_query(&re, q)).collect();
        if seq.iter().any(|o| o.is_cut()) {
            continue;
        }
        let nthreads = 48;
        let (re_ref, qs_ref, seq_ref) = (&re, &qs, &seq);
        let bad: Vec<String> = std::thread::scope(|sc| {
            let hs: Vec<_> = (0..nthreads)
                .map(|t| {
                    sc.spawn(move || {
                        let own = if t % 3 == 1 { Some(re_ref.clone()) } else { None };
                        let r: &regress::Regex = own.as_ref().unwrap_or(re_ref);
                        let mut bad = vec![];
                        for rep in 0..12 {
                            for k in 0..qs_ref.len() {
                                let i = (k * 7 + t + rep) % qs_ref.len();
                                let o = run_query(r, &qs_ref[i]);
                                if !o.is_cut() && o != seq_ref[i] && bad.is_empty() {
                                    bad.push(format!("thread {} of {}: query {:?} = {} but sequentially {}", t, nthreads, qs_ref[i], o.show(), seq_ref[i].show()));
                                }
                            }
                        }
                        bad
                    })
                })
                .collect();
            hs.into_iter().flat_map(|h| h.join().unwrap_or_else(|_| vec!["a thread died".to_string()])).collect()
        });
        queries += (nthreads * 12 * qs.len()) as u64;
        nontrivial += 1;
        if let Some(msg) = bad.into_iter().next() {
            let case = Case { pat: cps.clone(), flags: flags.to_string(), hay: hay.clone(), ..Default::default() };
            viol.push(json!({"case": case.to_json(), "msg": msg}));
        }
    }
    (viol, queries, nontrivial)
}
