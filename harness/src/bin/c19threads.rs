//! C19 (c): threads sharing a Regex. usage: c19threads <rounds> <seed> ; prints one JSON line.
use rvh::drv::*;
use rvh::pat::*;
use rvh::props::c19::*;
use rvh::run::*;
use rvh::src::{splitmix, Src};
use serde_json::json;

fn main() {
    let args: Vec<String> = std::env::args().collect();
    let rounds: usize = args.get(1).and_then(|s| s.parse().ok()).unwrap_or(1000);
    let seed: u64 = args.get(2).and_then(|s| s.parse().ok()).unwrap_or(1);
    install_quiet_panic_hook();
    let mut violations = vec![];
    let mut nontrivial = 0u64;
    let mut queries = 0u64;
    let mut sample = serde_json::Value::Null;
    let mut state = splitmix(seed ^ 0xC19);
    for round in 0..rounds {
        // choice vector from a PRNG stream that is a pure function of the seed
        let choices: Vec<u32> = (0..500)
            .map(|_| {
                state = splitmix(state);
                (state >> 32) as u32
            })
            .collect();
        let mut src = Src::new(&choices);
        let case = gen_case(&mut src, Tier::Thorough);
        let nthreads = 2 + src.below(15) as usize;
        let fl = Fl::parse(&case.flags);
        let qs = queries_from(&case.x["queries"]);
        let re = match compile(&case.pat, fl, false) {
            Ok(r) => r,
            Err(_) => continue,
        };
        let seq: Vec<Out> = qs.iter().map(|q| run_query(&re, q)).collect();
        if seq.iter().any(|o| o.is_cut()) {
            continue;
        }
        // assignment of queries to threads, per-thread order and yield points: generated
        let mut shares: Vec<Vec<(usize, bool)>> = vec![vec![]; nthreads];
        for rep in 0..3 {
            for i in 0..qs.len() {
                let t = src.below(nthreads as u32) as usize;
                shares[t].push((i, src.chance(1, 3)));
                let _ = rep;
            }
        }
        for s in shares.iter_mut() {
            if src.chance(1, 2) {
                s.reverse();
            }
        }
        let re_ref = &re;
        let qs_ref = &qs;
        let results: Vec<Vec<(usize, Out)>> = std::thread::scope(|sc| {
            let hs: Vec<_> = shares
                .iter()
                .enumerate()
                .map(|(t, share)| {
                    let share = share.clone();
                    sc.spawn(move || {
                        let own = if t % 2 == 1 { Some(re_ref.clone()) } else { None };
                        let r: &regress::Regex = own.as_ref().unwrap_or(re_ref);
                        let mut buf = String::with_capacity(64);
                        share
                            .iter()
                            .map(|(i, y)| {
                                if *y {
                                    std::thread::yield_now();
                                }
                                buf.clear();
                                buf.push_str(&qs_ref[*i].hay);
                                (*i, run_query_on(r, &qs_ref[*i], &buf))
                            })
                            .collect::<Vec<_>>()
                    })
                })
                .collect();
            hs.into_iter().map(|h| h.join().unwrap_or_default()).collect()
        });
        let mut bad = None;
        for (t, rs) in results.iter().enumerate() {
            for (i, o) in rs {
                queries += 1;
                if !o.is_cut() && *o != seq[*i] {
                    bad = Some(format!("thread {} of {}: query {} ({:?}) = {} but sequentially {}", t, nthreads, i, qs[*i], o.show(), seq[*i].show()));
                }
            }
        }
        if let Some(msg) = bad {
            if violations.len() < 5 {
                violations.push(json!({"case": case.to_json(), "msg": msg}));
            }
        }
        let any = seq.iter().any(|o| matches!(o, Out::Ms(v) if !v.is_empty()));
        if nthreads >= 4 && any {
            nontrivial += 1;
            if sample.is_null() {
                sample = json!({"text": format!("{} threads; {}", nthreads, case.show())});
            }
        }
        let _ = round;
    }
    println!("{}", json!({"c19threads": 1, "rounds": rounds, "nontrivial": nontrivial, "queries": queries, "violations": violations, "sample": sample}));
}
