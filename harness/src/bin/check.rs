//! check <ID> [--tier quick|thorough] [--seed N] [--replay FILE]

use rvh::drv::*;
use serde_json::Value;

/// Supervisor: the real work runs in a child process so that a crash of the (unchecked) code under
/// test is observed, attributed to a case and reported, instead of taking the check down with it.
fn supervise(args: &[String]) -> ! {
    use std::process::Command;
    let exe = std::env::current_exe().expect("current_exe");
    let prop = args[1].clone();
    let thorough = args.iter().any(|a| a == "thorough") || std::env::var("VERIF_TIER").ok().as_deref() == Some("thorough");
    let timeout = std::env::var("VERIF_WALL_LIMIT_S").ok().and_then(|s| s.parse::<u64>().ok()).unwrap_or(if thorough { 6 * 3600 } else { 1800 });
    let run = |extra_env: &[(&str, String)], extra_args: &[String]| -> (Option<i32>, bool) {
        let mut cmd = Command::new(&exe);
        cmd.args(&args[1..]).args(extra_args).env("VERIF_CHILD", "1");
        for (k, v) in extra_env {
            cmd.env(k, v);
        }
        let mut child = cmd.spawn().expect("spawn child");
        let t0 = std::time::Instant::now();
        loop {
            match child.try_wait() {
                Ok(Some(st)) => return (st.code(), false),
                Ok(None) => {
                    if t0.elapsed().as_secs() > timeout {
                        let _ = child.kill();
                        let _ = child.wait();
                        return (None, true);
                    }
                    std::thread::sleep(std::time::Duration::from_millis(20));
                }
                Err(_) => return (None, false),
            }
        }
    };
    let (code, timed_out) = run(&[], &[]);
    if timed_out {
        println!("INCONCLUSIVE property={} reason=wall-clock watchdog ({} s) fired; no verdict", prop, timeout);
        std::process::exit(2);
    }
    if let Some(c) = code {
        if c == 0 || c == 1 || c == 2 {
            std::process::exit(c);
        }
    }
    println!("child process died abnormally (status {:?}); re-running with a case journal to find the culprit", code);
    let is_replay = args.iter().any(|a| a == "--replay");
    if is_replay {
        let path = args.iter().position(|a| a == "--replay").and_then(|i| args.get(i + 1)).cloned().unwrap_or_default();
        println!("  the replayed case crashes the process (status {:?})", code);
        println!("VIOLATION property={} replay={}", prop, path);
        std::process::exit(1);
    }
    let vd = verif_dir();
    let jdir = format!("{}/work/journal-{}-{}", vd, prop, std::process::id());
    let _ = std::fs::remove_dir_all(&jdir);
    std::fs::create_dir_all(&jdir).expect("journal dir");
    let (code2, _) = run(&[("VERIF_JOURNAL", jdir.clone())], &[]);
    let mut found = 0;
    if !matches!(code2, Some(0) | Some(1) | Some(2)) {
        let mut files: Vec<_> = std::fs::read_dir(&jdir).map(|rd| rd.filter_map(|e| e.ok()).map(|e| e.path()).collect()).unwrap_or_default();
        files.sort();
        for f in files {
            let fname = f.file_name().unwrap().to_string_lossy().to_string();
            let vname = fname.split('@').next().unwrap_or("").to_string();
            let (c3, _) = run(&[], &["--journal-replay".to_string(), f.to_string_lossy().to_string()]);
            if matches!(c3, Some(0) | Some(2)) {
                continue;
            }
            if c3 == Some(1) {
                // an ordinary failure of that case; the child has printed it
                found += 1;
                continue;
            }
            // crashed: render the case (generation does not touch the code under test) and report it
            let journalled: Option<Case> = rvh::drv::read_journal_case(&f.to_string_lossy()).or_else(|| {
                let choices = read_journal(&f.to_string_lossy())?;
                let vars = rvh::props::variants(&prop);
                let var = vars.iter().find(|x| x.name == vname)?;
                let tier = if args.iter().any(|a| a == "thorough") || std::env::var("VERIF_TIER").ok().as_deref() == Some("thorough") { Tier::Thorough } else { Tier::Quick };
                let mut src = rvh::src::Src::new(&choices);
                Some((var.gen)(&mut src, tier))
            });
            if let Some(case) = journalled {
                {
                    let dir = format!("{}/violations/{}", vd, prop);
                    let _ = std::fs::create_dir_all(&dir);
                    let path = format!("{}/{}-crash-{:016x}.json", dir, vname, case.hash());
                    let doc = serde_json::json!({"property": prop, "variant": vname, "case": case.to_json(),
                        "message": format!("the process running this case died abnormally (exit status {:?}): memory-unsafe behaviour or abort in the code under test", c3)});
                    let _ = std::fs::write(&path, serde_json::to_string_pretty(&doc).unwrap());
                    println!("  violation[{}]: {} :: process died (status {:?})", vname, case.show(), c3);
                    println!("VIOLATION property={} replay={}", prop, path);
                    found += 1;
                }
            }
        }
    }
    let _ = std::fs::remove_dir_all(&jdir);
    if found > 0 {
        std::process::exit(1);
    }
    println!("INCONCLUSIVE property={} reason=abnormal termination that did not reproduce on any single journaled case", prop);
    std::process::exit(2);
}

fn main() {
    // everything runs on a thread with a large stack: the reference model and the generators recurse
    let h = std::thread::Builder::new().stack_size(512 << 20).spawn(real_main).expect("spawn main thread");
    let _ = h.join();
    std::process::exit(3);
}

fn real_main() {
    let args: Vec<String> = std::env::args().collect();
    if args.len() >= 2 && std::env::var("VERIF_CHILD").is_err() {
        supervise(&args);
    }
    if args.len() < 2 {
        eprintln!("usage: check <ID> [--tier quick|thorough] [--seed N] [--replay FILE]");
        std::process::exit(2);
    }
    let prop = args[1].clone();
    let mut tier = match std::env::var("VERIF_TIER").ok().as_deref() {
        Some("thorough") => Tier::Thorough,
        _ => Tier::Quick,
    };
    let mut seed: u64 = std::env::var("VERIF_SEED").ok().and_then(|s| s.parse().ok()).unwrap_or(1);
    let mut replay: Option<String> = None;
    let mut jreplay: Option<String> = None;
    let mut i = 2;
    while i < args.len() {
        match args[i].as_str() {
            "--tier" => {
                tier = if args.get(i + 1).map(|s| s.as_str()) == Some("thorough") { Tier::Thorough } else { Tier::Quick };
                i += 1;
            }
            "--seed" => {
                seed = args.get(i + 1).and_then(|s| s.parse().ok()).unwrap_or(seed);
                i += 1;
            }
            "--replay" => {
                replay = args.get(i + 1).cloned();
                i += 1;
            }
            "--journal-replay" => {
                jreplay = args.get(i + 1).cloned();
                i += 1;
            }
            _ => {}
        }
        i += 1;
    }
    rvh::run::install_quiet_panic_hook();
    if prop == "SELFTEST" {
        match rvh::esref::selftest::run() {
            Ok((n, m)) => {
                println!("oracle self-test ok: {} frozen V8 verdicts reproduced ({} matches)", n, m);
                std::process::exit(0);
            }
            Err(e) => {
                println!("ORACLE SELF-TEST FAILED: {}", e);
                std::process::exit(2);
            }
        }
    }
    let ctx = Ctx::new(&prop, tier, seed);

    if let Some(path) = jreplay {
        let fname = std::path::Path::new(&path).file_name().unwrap().to_string_lossy().to_string();
        let vname = fname.split('@').next().unwrap_or("").to_string();
        let vars = rvh::props::variants(&prop);
        let var = match vars.iter().find(|x| x.name == vname) {
            Some(v) => v,
            None => std::process::exit(2),
        };
        let case = match rvh::drv::read_journal_case(&path) {
            Some(c) => c,
            None => {
                let choices = read_journal(&path).unwrap_or_default();
                let mut src = rvh::src::Src::new(&choices);
                (var.gen)(&mut src, tier)
            }
        };
        let mut l = Local::default();
        match (var.check)(&case, &mut l) {
            Verdict::Fail(msg) => {
                ctx.add_violation(var.name, &case, &msg);
                let agg = ctx.agg.lock().unwrap();
                for v in agg.violations.iter() {
                    println!("  violation[{}]: {} :: {}", v.variant, v.show, v.msg);
                    println!("VIOLATION property={} replay={}", prop, v.path);
                }
                std::process::exit(1);
            }
            _ => std::process::exit(0),
        }
    }

    if let Some(path) = replay {
        let txt = std::fs::read_to_string(&path).unwrap_or_else(|e| {
            eprintln!("cannot read {}: {}", path, e);
            std::process::exit(2)
        });
        let v: Value = serde_json::from_str(&txt).unwrap_or_else(|e| {
            eprintln!("bad json {}: {}", path, e);
            std::process::exit(2)
        });
        let docs: Vec<Value> = if let Some(a) = v.as_array() { a.clone() } else { vec![v] };
        let mut bad = 0;
        for d in docs {
            let vname = d.get("variant").and_then(|x| x.as_str()).unwrap_or("");
            let case = match d.get("case").and_then(Case::from_json) {
                Some(c) => c,
                None => {
                    eprintln!("no case in replay document");
                    std::process::exit(2)
                }
            };
            let vars = rvh::props::variants(&prop);
            let var = vars.iter().find(|x| x.name == vname).or(vars.first());
            match var {
                None => {
                    eprintln!("unknown property/variant {} {}", prop, vname);
                    std::process::exit(2)
                }
                Some(var) => {
                    let mut l = Local::default();
                    let verdict = (var.check)(&case, &mut l);
                    println!("replay {} [{}] {} => {:?}", path, var.name, case.show(), verdict);
                    if let Verdict::Fail(_) = verdict {
                        println!("VIOLATION property={} replay={}", prop, path);
                        bad += 1;
                    }
                }
            }
        }
        // C06 judges three builds of the same harness: replay through the others as well
        if prop == "C06" && std::env::var("VERIF_SUMMARY_ONLY").is_err() {
            for rel in ["target/chk/check", "target-safe/chk/check"] {
                let exe = format!("{}/harness/{}", verif_dir(), rel);
                if std::path::Path::new(&exe).exists() {
                    let st = std::process::Command::new(&exe).arg(&prop).arg("--replay").arg(&path).env("VERIF_SUMMARY_ONLY", rel).env_remove("VERIF_CHILD").status();
                    if let Ok(st) = st {
                        if st.code() == Some(1) {
                            bad += 1;
                        }
                    }
                }
            }
        }
        std::process::exit(if bad > 0 { 1 } else { 0 });
    }

    // open known findings of this property: replay each witness strictly; report it while it still fails
    for k in rvh::kf::open() {
        if !k.properties.iter().any(|p| p == &prop) {
            continue;
        }
        let w = match &k.witness {
            Some(w) => w,
            None => continue,
        };
        let docs: Vec<Value> = if let Some(a) = w.as_array() { a.clone() } else { vec![w.clone()] };
        for d in docs {
            if d.get("property").and_then(|x| x.as_str()).map(|x| x != prop).unwrap_or(false) {
                continue;
            }
            let vname = d.get("variant").and_then(|x| x.as_str()).unwrap_or("");
            let vars = rvh::props::variants(&prop);
            if let (Some(var), Some(case)) = (vars.iter().find(|x| x.name == vname), d.get("case").and_then(Case::from_json)) {
                rvh::kf::set_strict(true);
                let mut l = Local::default();
                let verdict = (var.check)(&case, &mut l);
                rvh::kf::set_strict(false);
                if let Verdict::Fail(msg) = verdict {
                    println!("KNOWN-FINDING: property={} {} [{}] witness {} :: {}", prop, k.id, k.what, case.show(), msg);
                }
            }
        }
    }

    // regression inputs first
    for (path, vname, case, _doc) in load_replays(&prop) {
        let vars = rvh::props::variants(&prop);
        if let Some(var) = vars.iter().find(|x| x.name == vname).or(vars.first()) {
            ctx.run_case(var, &case, &path);
        }
    }
    match rvh::props::run(&prop, &ctx) {
        Some(code) => std::process::exit(code),
        None => {
            eprintln!("unknown property {}", prop);
            std::process::exit(2)
        }
    }
}
