//! check <ID> [--tier quick|thorough] [--seed N] [--replay FILE]

use rvh::drv::*;
use serde_json::Value;

fn main() {
    let args: Vec<String> = std::env::args().collect();
    if args.len() < 2 {
        eprintln!("usage: check <ID> [--tier quick|thorough] [--seed N] [--replay FILE]");
        std::process::exit(2);
    }
    let prop = args[1].clone();
    let mut tier = match std::env::var("VERIF_TIER").ok().as_deref() {
        Some("thorough") => Tier::Thorough,
        _ => Tier::Quick,
    };
    let mut seed: u64 = std::env::var("VERIF_SEED").ok().and_then(|s| s.parse().ok()).unwrap_or(1);
    let mut replay: Option<String> = None;
    let mut i = 2;
    while i < args.len() {
        match args[i].as_str() {
            "--tier" => {
                tier = if args.get(i + 1).map(|s| s.as_str()) == Some("thorough") { Tier::Thorough } else { Tier::Quick };
                i += 1;
            }
            "--seed" => {
                seed = args.get(i + 1).and_then(|s| s.parse().ok()).unwrap_or(seed);
                i += 1;
            }
            "--replay" => {
                replay = args.get(i + 1).cloned();
                i += 1;
            }
            _ => {}
        }
        i += 1;
    }
    rvh::run::install_quiet_panic_hook();
    let ctx = Ctx::new(&prop, tier, seed);

    if let Some(path) = replay {
        let txt = std::fs::read_to_string(&path).unwrap_or_else(|e| {
            eprintln!("cannot read {}: {}", path, e);
            std::process::exit(2)
        });
        let v: Value = serde_json::from_str(&txt).unwrap_or_else(|e| {
            eprintln!("bad json {}: {}", path, e);
            std::process::exit(2)
        });
        let docs: Vec<Value> = if let Some(a) = v.as_array() { a.clone() } else { vec![v] };
        let mut bad = 0;
        for d in docs {
            let vname = d.get("variant").and_then(|x| x.as_str()).unwrap_or("");
            let case = match d.get("case").and_then(Case::from_json) {
                Some(c) => c,
                None => {
                    eprintln!("no case in replay document");
                    std::process::exit(2)
                }
            };
            let vars = rvh::props::variants(&prop);
            let var = vars.iter().find(|x| x.name == vname).or(vars.first());
            match var {
                None => {
                    eprintln!("unknown property/variant {} {}", prop, vname);
                    std::process::exit(2)
                }
                Some(var) => {
                    let mut l = Local::default();
                    let verdict = (var.check)(&case, &mut l);
                    println!("replay {} [{}] {} => {:?}", path, var.name, case.show(), verdict);
                    if let Verdict::Fail(_) = verdict {
                        println!("VIOLATION property={} replay={}", prop, path);
                        bad += 1;
                    }
                }
            }
        }
        std::process::exit(if bad > 0 { 1 } else { 0 });
    }

    // regression inputs first
    for (path, vname, case, _doc) in load_replays(&prop) {
        let vars = rvh::props::variants(&prop);
        if let Some(var) = vars.iter().find(|x| x.name == vname).or(vars.first()) {
            ctx.run_case(var, &case, &path);
        }
    }
    match rvh::props::run(&prop, &ctx) {
        Some(code) => std::process::exit(code),
        None => {
            eprintln!("unknown property {}", prop);
            std::process::exit(2)
        }
    }
}
