//! Choice source: every random decision of every generator is a draw from a
//! finite vector of `u32` supplied by the driver (proptest's `vec(any::<u32>())`
//! strategy, a libFuzzer byte string, or a replay file). Exhausted input reads
//! as 0, and 0 always selects the first (simplest) alternative, so shrinking the
//! vector (deleting elements, lowering values) shrinks the generated case.

pub struct Src<'a> {
    data: &'a [u32],
    i: usize,
}

impl<'a> Src<'a> {
    pub fn new(data: &'a [u32]) -> Self {
        Src { data, i: 0 }
    }

    pub fn consumed(&self) -> usize {
        self.i
    }

    #[inline]
    pub fn raw(&mut self) -> u32 {
        let v = self.data.get(self.i).copied().unwrap_or(0);
        self.i += 1;
        v
    }

    /// Uniform in 0..n (n >= 1); monotone in the raw value so that shrinking works.
    #[inline]
    pub fn below(&mut self, n: u32) -> u32 {
        debug_assert!(n >= 1);
        ((self.raw() as u64 * n as u64) >> 32) as u32
    }

    /// Uniform in lo..=hi.
    #[inline]
    pub fn range(&mut self, lo: u32, hi: u32) -> u32 {
        lo + self.below(hi - lo + 1)
    }

    /// True with probability num/den. Raw value 0 gives false.
    #[inline]
    pub fn chance(&mut self, num: u32, den: u32) -> bool {
        // high raw values => true, so that 0 => false
        self.below(den) >= den - num
    }

    pub fn pick<'b, T>(&mut self, xs: &'b [T]) -> &'b T {
        &xs[self.below(xs.len() as u32) as usize]
    }

    /// Index drawn according to integer weights (first entries are the "simplest").
    pub fn weighted(&mut self, weights: &[u32]) -> usize {
        let total: u32 = weights.iter().sum();
        let mut r = self.below(total.max(1));
        for (i, w) in weights.iter().enumerate() {
            if r < *w {
                return i;
            }
            r -= *w;
        }
        weights.len() - 1
    }
}

/// SplitMix64: used only to derive per-shard seeds from VERIF_SEED, never inside a property.
pub fn splitmix(mut x: u64) -> u64 {
    x = x.wrapping_add(0x9E3779B97F4A7C15);
    let mut z = x;
    z = (z ^ (z >> 30)).wrapping_mul(0xBF58476D1CE4E5B9);
    z = (z ^ (z >> 27)).wrapping_mul(0x94D049BB133111EB);
    z ^ (z >> 31)
}

pub fn fnv(bytes: &[u8]) -> u64 {
    let mut h: u64 = 0xcbf29ce484222325;
    for b in bytes {
        h ^= *b as u64;
        h = h.wrapping_mul(0x100000001b3);
    }
    h
}
