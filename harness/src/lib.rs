#![cfg_attr(feature = "pattern", feature(pattern))]
pub mod drv;
pub mod esref;
pub mod kf;
pub mod pat;
pub mod props;
pub mod run;
pub mod soup;
pub mod src;
pub mod uni;
