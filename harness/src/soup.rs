//! Token soup: sequences of syntax fragments. This is what reaches the parser's special cases.

use crate::pat::{Fl, Mode};
use crate::src::Src;

pub const TOKENS: &[&str] = &[
    "a", "b", "c", "A", "1", "0", "9", "_", "-", " ", "é", "ſ", "K", "😀", "𐐀", "\u{2028}", "\n",
    "(", ")", "(?:", "(?=", "(?!", "(?<=", "(?<!", "(?<n>", "(?<m>", "(?<n", "(?<>", "(?", "(?i:", "(?-i:", "(?im-s:", "(?i-i:", "(?-:", "(?x:", "(?ii:",
    "[", "]", "[^", "[]", "[^]", "[a-z]", "[z-a]", "[\\d-a]", "[a-\\d]", "[--a]", "[a-]", "[\\b]", "[\\B]", "[\\c1]", "[\\c]", "[\\-]", "[&&]", "[a&&b]", "[a--b]",
    "[a&b]", "[[a]]", "[^[a]]", "[\\q{ab|c}]", "[\\q{}]", "[^\\q{ab}]", "[^\\q{a}]", "[a&&&b]", "[a-z&&b]", "[(]", "[a|b]", "[\\&]", "[!!]", "[a!!]", "\\q{a}",
    "{", "}", "{1}", "{1,}", "{1,2}", "{2,1}", "{,2}", "{a}", "{1", "{1,2", "{99999999999999999999}", "{0}", "*", "+", "?", "*?", "+?", "??", "{1,2}?", "**",
    "|", "||", ".", "^", "$", "\\b", "\\B", "\\d", "\\D", "\\w", "\\W", "\\s", "\\S",
    "\\1", "\\2", "\\9", "\\10", "\\0", "\\00", "\\01", "\\8", "\\k<n>", "\\k<m>", "\\k<x>", "\\k", "\\k<", "\\k<n",
    "\\x41", "\\x4", "\\x", "\\u0041", "\\u004", "\\u", "\\u{41}", "\\u{110000}", "\\u{}", "\\u{41", "\\uD83D\\uDE00", "\\uD83D", "\\uDE00", "\\cA", "\\c1", "\\c", "\\ca",
    "\\p{Lu}", "\\P{Lu}", "\\p{L", "\\p{Foo}", "\\p{Script=Greek}", "\\p{sc=Grek}", "\\p{scx=Zzzz}", "\\p{General_Category=Lu}", "\\p{gc=Foo}", "\\p{Lu=Lu}", "\\p{RGI_Emoji}", "\\P{RGI_Emoji}",
    "\\p{gc=Alphabetic}", "\\p{gc=ASCII}", "\\p{sc=Lu}", "\\p{scx=Alphabetic}", "\\p{gc=RGI_Emoji}", "\\p{Script=Any}", "\\p{General_Category=Greek}", "\\P{gc=Any}",
    "\\08", "\\09", "[\\08]", "\\07", "\\1\\08",
    "\\p{Emoji_Keycap_Sequence}", "\\p{ASCII}", "\\p{Any}", "\\p{ lu}", "\\p{lu}", "\\p", "\\P", "\\p{}", "\\p{Script=}", "\\p{=Lu}", "\\p{IsLu}", "\\p{Block=Basic_Latin}", "\\p{Script_Extensions=Latin}",
    "\\-", "\\/", "\\.", "\\(", "\\)", "\\[", "\\]", "\\{", "\\}", "\\|", "\\^", "\\$", "\\*", "\\+", "\\?", "\\\\", "\\a", "\\e", "\\z", "\\_", "\\ ", "\\é", "\\😀", "\\", "\\n", "\\t", "\\v", "\\f", "\\r",
    "/", ",", ":", "<", ">", "=", "!", "&", "&&", "--", "~", "#", "%", "@", "`", ";",
    // three-digit legacy octal escapes (first digit 4-7 takes only one more digit), decimal escapes beyond u32 / u64,
    // \q with empty alternatives next to single characters
    "\\477", "\\400", "\\377", "\\777", "\\47", "[\\777]", "[\\400]", "\\4294967297", "\\4294967296", "\\18446744073709551617", "(a)\\4294967297", "\\99999999999",
    "\\q{a|}", "\\q{|a}", "\\q{}", "\\q{a|b}", "[^\\q{a|}]", "[^\\q{|}]", "[^[\\q{a||b}]]", "(?i-:a)", "(?ims-:a)", "(?-i:a)", "(?i-s:a)",
];

pub fn gen_soup(src: &mut Src, max_tokens: u32) -> Vec<u32> {
    let n = 1 + src.below(max_tokens);
    let mut out = vec![];
    // a small per-case palette raises the chance of meaningful interactions
    let palette: Vec<&str> = (0..6).map(|_| *src.pick(TOKENS)).collect();
    for _ in 0..n {
        let t = if src.chance(1, 2) { *src.pick(&palette) } else { *src.pick(TOKENS) };
        out.extend(t.chars().map(|c| c as u32));
    }
    out
}

pub fn gen_flags_any(src: &mut Src) -> Fl {
    Fl { i: src.chance(1, 3), m: src.chance(1, 4), s: src.chance(1, 4), mode: *src.pick(&[Mode::Legacy, Mode::U, Mode::V]) }
}

/// insert / delete / duplicate / swap / replace code points
pub fn mutate(src: &mut Src, cps: &mut Vec<u32>) {
    let n = 1 + src.below(3);
    const EDIT: &[u32] = &[
        0x28, 0x29, 0x5B, 0x5D, 0x7B, 0x7D, 0x5C, 0x7C, 0x2A, 0x2B, 0x3F, 0x5E, 0x24, 0x2E, 0x2D, 0x3C, 0x3E, 0x3A, 0x3D, 0x21, 0x2C, 0x26, 0x30, 0x31, 0x39, 0x61, 0x6B,
        0x70, 0x71, 0x75, 0x78, 0x63, 0xD800, 0xDC00, 0x10FFFF, 0x0, 0x2028,
    ];
    for _ in 0..n {
        let len = cps.len() as u32;
        match src.below(5) {
            0 => {
                let at = src.below(len + 1) as usize;
                cps.insert(at, *src.pick(EDIT));
            }
            1 if len > 0 => {
                let at = src.below(len) as usize;
                cps.remove(at);
            }
            2 if len > 0 => {
                let at = src.below(len) as usize;
                let l = 1 + src.below(4.min(len - at as u32)) as usize;
                let seg: Vec<u32> = cps[at..at + l].to_vec();
                for (k, c) in seg.into_iter().enumerate() {
                    cps.insert(at + l + k, c);
                }
            }
            3 if len > 1 => {
                let a = src.below(len) as usize;
                let b = src.below(len) as usize;
                cps.swap(a, b);
            }
            _ if len > 0 => {
                let at = src.below(len) as usize;
                cps[at] = *src.pick(EDIT);
            }
            _ => {}
        }
    }
}
