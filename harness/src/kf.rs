//! Known findings: genuine, recorded (unrepaired) defects of regress. Loaded read-only from /verif/known_findings.json.
//! Attribution (DESIGN 2.8): a mismatch is attributed to an open finding iff the strict reference disagrees with regress
//! AND the reference with exactly that finding's quirk switch agrees with regress.

use crate::esref::{self, Quirks};
use crate::pat::Fl;
use crate::run::M;
use serde_json::Value;
use std::sync::atomic::{AtomicBool, Ordering};
use std::sync::OnceLock;

pub struct OpenKf {
    pub id: String,
    pub properties: Vec<String>,
    pub quirk: Option<Quirks>,
    pub what: String,
    pub witness: Option<Value>,
}

static STRICT: AtomicBool = AtomicBool::new(false);

/// In strict mode nothing is attributed (used to replay the witnesses of open findings).
pub fn set_strict(b: bool) {
    STRICT.store(b, Ordering::SeqCst);
}

fn quirk_by_name(n: &str) -> Option<Quirks> {
    let mut q = Quirks::default();
    match n {
        "legacy_u_brace_is_codepoint_escape" => q.legacy_u_brace_is_codepoint_escape = true,
        _ => return None,
    }
    Some(q)
}

pub fn open() -> &'static Vec<OpenKf> {
    static K: OnceLock<Vec<OpenKf>> = OnceLock::new();
    K.get_or_init(|| {
        let path = format!("{}/known_findings.json", crate::drv::verif_dir());
        let mut out = vec![];
        if let Ok(txt) = std::fs::read_to_string(&path) {
            if let Ok(v) = serde_json::from_str::<Value>(&txt) {
                for f in v["findings"].as_array().cloned().unwrap_or_default() {
                    if f["status"] != "open" {
                        continue;
                    }
                    out.push(OpenKf {
                        id: f["id"].as_str().unwrap_or("?").to_string(),
                        properties: f["properties"].as_array().map(|a| a.iter().filter_map(|x| x.as_str().map(|s| s.to_string())).collect()).unwrap_or_default(),
                        quirk: f["quirk"].as_str().and_then(quirk_by_name),
                        what: f["what"].as_str().unwrap_or("").to_string(),
                        witness: f.get("witness").cloned(),
                    });
                }
            }
        }
        out
    })
}

/// regress' accept/reject verdict `got` differs from the strict reference: is it explained by exactly one open quirk?
pub fn explain_accept(p: &[u32], fl: Fl, got: bool) -> Option<String> {
    if STRICT.load(Ordering::SeqCst) {
        return None;
    }
    for k in open() {
        if let Some(q) = k.quirk {
            if esref::parse::parse_q(p, esref::pflags(fl), q).is_ok() == got {
                return Some(k.id.clone());
            }
        }
    }
    None
}

/// regress' first match `got` differs from the strict reference (or the strict reference rejects the pattern).
pub fn explain_match(p: &[u32], fl: Fl, hay: &str, start: usize, got: &Option<M>, limit: u64) -> Option<String> {
    if STRICT.load(Ordering::SeqCst) {
        return None;
    }
    for k in open() {
        if let Some(q) = k.quirk {
            if let Ok(r) = esref::compile_q(p, fl, q) {
                let want = match r.find(hay, start, limit).0 {
                    esref::Found::Match(m) => Some(m),
                    esref::Found::NoMatch => None,
                    esref::Found::Aborted => continue,
                };
                if &want == got {
                    return Some(k.id.clone());
                }
            }
        }
    }
    None
}
