//! cfgrun: reads one JSON case per line on stdin, writes one canonical result line per case on stdout.
//! case: {"p":[code points],"f":"flags","h":"haystack","s":start,"t":"template"}
use regress::{Flags, Regex};
use serde_json::Value;
use std::io::{BufRead, Write};
use std::panic::{catch_unwind, AssertUnwindSafe};

fn show(m: &regress::Match) -> String {
    let mut s = format!("{}-{}", m.range.start, m.range.end);
    for c in &m.captures {
        match c {
            Some(r) => s.push_str(&format!(",{}-{}", r.start, r.end)),
            None => s.push_str(",-"),
        }
    }
    s
}

fn run_case(v: &Value) -> String {
    let pat: Vec<u32> = v["p"].as_array().map(|a| a.iter().filter_map(|x| x.as_u64().map(|n| n as u32)).collect()).unwrap_or_default();
    let f = v["f"].as_str().unwrap_or("");
    let h = v["h"].as_str().unwrap_or("");
    let start = v["s"].as_u64().unwrap_or(0) as usize;
    let t = v["t"].as_str().unwrap_or("");
    let mut out = String::new();
    for no_opt in [false, true] {
        let mut flags = Flags::from(f);
        flags.no_opt = no_opt;
        let re = match Regex::from_unicode(pat.iter().copied(), flags) {
            Ok(r) => r,
            Err(_) => {
                out.push_str("E;");
                continue;
            }
        };
        let lim = h.len() + 3;
        if start >= h.len() || h.is_char_boundary(start) {
            out.push_str("M:");
            for m in re.find_from(h, start).take(lim) {
                out.push_str(&show(&m));
                out.push(' ');
            }
            out.push_str("P:");
            for m in regress::backends::find::<regress::backends::PikeVMExecutor>(&re, h, start).take(lim) {
                out.push_str(&show(&m));
                out.push(' ');
            }
        }
        if h.is_ascii() {
            out.push_str("A:");
            for m in re.find_from_ascii(h, start).take(lim) {
                out.push_str(&show(&m));
                out.push(' ');
            }
        }
        if !no_opt {
            out.push_str("R:");
            out.push_str(&format!("{:?}", re.replace_all(h, t)));
            out.push_str("N:");
            if let Some(m) = re.find(h) {
                for (k, r) in m.named_groups() {
                    out.push_str(&format!("{}={:?},", k, r));
                }
            }
        }
        out.push(';');
    }
    out
}

// Wall-clock watchdog: these runners have no step budget (no hooks), so a runaway case would block the harness
// for ever. After 5 s on one case the runner reports TIMEOUT and exits; the harness treats that case as
// inconclusive (skipped and counted) and starts a fresh runner. A timeout is never a verdict.
static CASE_STARTED_MS: std::sync::atomic::AtomicU64 = std::sync::atomic::AtomicU64::new(0);

fn now_ms() -> u64 {
    std::time::SystemTime::now().duration_since(std::time::UNIX_EPOCH).map(|d| d.as_millis() as u64).unwrap_or(0)
}

fn main() {
    std::panic::set_hook(Box::new(|_| {}));
    std::thread::spawn(|| loop {
        std::thread::sleep(std::time::Duration::from_millis(100));
        let t = CASE_STARTED_MS.load(std::sync::atomic::Ordering::SeqCst);
        if t != 0 && now_ms().saturating_sub(t) > 5_000 {
            println!("TIMEOUT");
            let _ = std::io::stdout().flush();
            std::process::exit(3);
        }
    });
    let stdin = std::io::stdin();
    let stdout = std::io::stdout();
    for line in stdin.lock().lines() {
        let line = match line {
            Ok(l) => l,
            Err(_) => break,
        };
        CASE_STARTED_MS.store(now_ms(), std::sync::atomic::Ordering::SeqCst);
        let res = match serde_json::from_str::<Value>(&line) {
            Ok(v) => match catch_unwind(AssertUnwindSafe(|| run_case(&v))) {
                Ok(s) => s,
                Err(p) => format!("PANIC:{}", p.downcast_ref::<&str>().map(|s| s.to_string()).or_else(|| p.downcast_ref::<String>().cloned()).unwrap_or_default()),
            },
            Err(_) => "BADJSON".to_string(),
        };
        CASE_STARTED_MS.store(0, std::sync::atomic::Ordering::SeqCst);
        // (the lock is taken per line so that the watchdog thread can still print)
        let mut out = stdout.lock();
        let _ = writeln!(out, "{}", res.replace('\n', "\\n"));
        let _ = out.flush();
    }
}
