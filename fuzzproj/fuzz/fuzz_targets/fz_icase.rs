#![no_main]
mod common;
use libfuzzer_sys::fuzz_target;
// C10: the fuzzer-chosen case of variant "icase_composition" judged by the property's own oracle
fuzz_target!(|data: &[u8]| { common::run("C10", "icase_composition", data); });
