#![no_main]
mod common;
use libfuzzer_sys::fuzz_target;
// C12: the fuzzer-chosen case of variant "class_vs_reference" judged by the property's own oracle
fuzz_target!(|data: &[u8]| { common::run("C12", "class_vs_reference", data); });
