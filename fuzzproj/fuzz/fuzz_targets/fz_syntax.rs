#![no_main]
mod common;
use libfuzzer_sys::fuzz_target;
// C08: the fuzzer-chosen case of variant "token_soup" judged by the property's own oracle
fuzz_target!(|data: &[u8]| { common::run("C08", "token_soup", data); });
