#![no_main]
mod common;
use libfuzzer_sys::fuzz_target;
// C09: the fuzzer-chosen case of variant "iteration_unfold" judged by the property's own oracle
fuzz_target!(|data: &[u8]| { common::run("C09", "iteration_unfold", data); });
