#![no_main]
mod common;
use libfuzzer_sys::fuzz_target;
// C07: compilation is total (token soup decoded from the bytes)
fuzz_target!(|data: &[u8]| { common::run("C07", "token_soup", data); common::run("C07", "raw_code_points", data); });
