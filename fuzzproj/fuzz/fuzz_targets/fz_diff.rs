#![no_main]
mod common;
use libfuzzer_sys::fuzz_target;
// C01: regress vs the ES reference model on the fuzzer-chosen case (general generator)
fuzz_target!(|data: &[u8]| { common::run("C01", "general", data); });
