#![no_main]
mod common;
use libfuzzer_sys::fuzz_target;
// C02: the fuzzer-chosen case of variant "general" judged by the property's own oracle
fuzz_target!(|data: &[u8]| { common::run("C02", "general", data); });
