// bytes -> choice vector -> the harness's own generators and oracles (the semantic oracle is inside the target).
pub fn choices(data: &[u8]) -> Vec<u32> {
    data.chunks(2).map(|c| { let v = (c[0] as u32) | ((*c.get(1).unwrap_or(&0) as u32) << 8); v << 16 | v }).collect()
}

pub fn run(prop: &str, variant: &str, data: &[u8]) {
    rvh::run::install_quiet_panic_hook_once();
    let ch = choices(data);
    let vars = rvh::props::variants(prop);
    let var = match vars.iter().find(|v| v.name == variant) { Some(v) => v, None => return };
    let mut src = rvh::src::Src::new(&ch);
    let case = (var.gen)(&mut src, rvh::drv::Tier::Thorough);
    let mut l = rvh::drv::Local::default();
    if let rvh::drv::Verdict::Fail(msg) = (var.check)(&case, &mut l) {
        // write the case next to the artifact so that it can be replayed without the fuzzer
        let dir = format!("{}/violations/{}", rvh::drv::verif_dir(), prop);
        let _ = std::fs::create_dir_all(&dir);
        let path = format!("{}/fuzz-{}-{:016x}.json", dir, variant, case.hash());
        let doc = format!("{{\"property\":\"{}\",\"variant\":\"{}\",\"case\":{},\"message\":{}}}", prop, variant, case.to_json(), rvh::drv::json_string(&msg));
        let _ = std::fs::write(&path, doc);
        eprintln!("FUZZ-VIOLATION property={} replay={} :: {} :: {}", prop, path, case.show(), msg);
        std::process::abort();
    }
}
