#![no_main]
mod common;
use libfuzzer_sys::fuzz_target;
// C03: the fuzzer-chosen case of variant "opt_vs_noopt_L4" judged by the property's own oracle
fuzz_target!(|data: &[u8]| { common::run("C03", "opt_vs_noopt_L4", data); });
