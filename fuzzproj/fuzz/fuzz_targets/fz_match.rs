#![no_main]
mod common;
use libfuzzer_sys::fuzz_target;
// C06: memory safety / range validity under ASan with debug assertions
fuzz_target!(|data: &[u8]| { common::run("C06", "safety_general", data); });
